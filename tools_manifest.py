#!/usr/bin/env python3
"""Regenerates MANIFEST.json from the table below (keeps it valid at all times)."""
import json, os, sys
HERE = os.path.dirname(os.path.abspath(__file__))

CLAIMED = {
    # id: (level, text, note, technique, design_ref)
    'C05': ('exploration',
            'Model-based history machine on one mutable FitInfo: keep(selector) steps with all six selector forms interleaved with pickle hops, '
            'file hops (FitInfoFile write/read) and consumer hops (write_parameters on the file with its own selector), compared after every '
            'step with ref_select applied to reference rows captured at creation (every per-fit array, tagged by row), plus the composition clause. '
            'Synthetic results over an alphabet with ties/1e30/inf/NaN and real fits with duplicate SEDs and confidence-1 limits. Seeded sampling '
            '(the length<=5 sub-space is sampled many times over), not enumeration.',
            'Trusts numpy argsort order as the ranking; thresholds equal to an attained value are not judged (the property is silent there).',
            'deterministic simulation: seeded operation histories (keep / pickle hop / file hop / consumer hop) on one shared object against an executable reference model',
            'DESIGN.md section 5 (C05)'),
    'C07': ('exploration',
            'Seeded twin worlds (the same SEDs authored independently as a per-file and as a cube package; f4/f8, gz, sub-directories, four flux '
            'units, either spectral order) under convolver schedules: calls on the two packages interleaved, filter sub-sets with overwrite, '
            'permuted directory listings, memmap on/off, a crash at the k-th output file (optionally leaving a truncated file) followed by a rerun, '
            'and an analyst running a post-processing function on the package between convolver calls. Every row of every convolved file is '
            'compared with SED X pushed through sedfitter\'s own rebin in isolation (identity, order, FILTWAV, apertures), the two formats with '
            'each other, and the fits of three Fitters (v1, v2 memmap off/on) by model name within a derived perturbation bound.',
            'The integral itself is not judged here (C06 unclaimed); tolerances 1e-10 (f8) / 2e-5 (f4); singular regressions and models within '
            '10 delta of a limit point are skipped; the package files are written by the harness, not by sedfitter\'s writers.',
            'deterministic simulation: seeded twin-package worlds x convolver schedules with listing permutation, knobs, crash+rerun and interleaved consumers; identity + differential oracles',
            'DESIGN.md section 5 (C07), 12.3'),
    'C08': ('exploration',
            'Whole-pipeline simulated runs with a planted truth: photometry synthesised by the harness\'s own exact integrator / aperture '
            'interpolation / extinction law from model m at (A_V0, d0 | scale), then convolve -> fit() -> write_parameters executed on real '
            'code under permuted listings, memmap knob, clock profiles, stream forms, both package formats, both fitting modes, both filter '
            'storage orders, four package flux units, crash+rerun of the convolve stage and crash/ENOSPC+restart of the fit stage, a prelude epoch '
            '(a previous package run through the same stages in the same directory and process), and the same planting through the object '
            'interface with another user fitting against another package in between. Oracle: m ranked first, chi^2 within a conditioned bound '
            'of 0, runner-up above 0.5, A_V and scale within bounds derived from the reference normal matrix, m\'s own parameter row printed.',
            'Degenerate plantings (reference LSQ: another model / grid distance below chi^2 1, singular normal matrix) are discarded and counted; '
            'numeric slack: delta 1e-13 (per-file), 1e-7 (cube, float32 model store), 3e-7 (cube stored f4).',
            'deterministic simulation: seeded end-to-end pipeline runs with environment knobs, same-directory history and stage crash/restart faults; planted-truth oracle from an independent reference model',
            'DESIGN.md section 5 (C08), 12.3'),
    'C09': ('exploration',
            'Seeded scenarios on a real fit file: the author rewrites parameters.fits[.gz] in other row orders between steps, analysts call '
            'write_parameters / write_parameter_ranges / extract_parameters / plot_params_1d/2d with selectors and additional-parameter '
            'dictionaries through a path, one object or a shared list (consumer after consumer on the same objects), optionally after a prelude '
            'epoch in the same directory. Every listed row, range and the table handed to the plots is compared with a by-name lookup in the '
            'author\'s reference parameters at printed precision.',
            'Trusts the fit records as given (C10); printed precision bounds the comparison; savefig is stubbed for the parameter plots.',
            'deterministic simulation: seeded histories of author rewrites and analyst calls over channels, reference-model lookup oracle',
            'DESIGN.md section 5 (C09)'),
    'C10': ('exploration',
            'Seeded simulated runs of the whole writer path: data stream (path or simulated reader, eligible/ineligible lines, short '
            'terminator lines), output stream under crash/ENOSPC at chosen byte offsets followed by a restart through the delete prompt, '
            'pre-existing outputs, non-monotone clocks, a prelude epoch (a previous package fitted with another extinction law in the same '
            'directory and process); every record of the final file is compared bit-exactly with an object-interface twin, the metadata with '
            'the run, sedfitter\'s reader with the raw pickle stream; then histories of up to 3 post-processing calls (with non-default '
            'options) through one channel (path / object / list / objects straight from Fitter.fit), optionally after an intruder user fitted '
            'against another package, are compared with fresh per-call executions on the path, with the caller\'s objects and the input file '
            'required unchanged. Evidence by seeded search, not proof.',
            'Trusts the object interface (Fitter.fit + keep) as the reference for record contents; bit-exactness is only demanded between '
            'two executions of the same code path in one process; zero-byte outputs are outside the quantifier.',
            'deterministic simulation: seeded scenarios over data/output streams, clock, prompt, crash/ENOSPC + restart, same-directory history and consumer histories on shared result objects; differential + twin oracles',
            'DESIGN.md section 5 (C10), 12.3'),
    'C11': ('exploration',
            'History clause by simulation: one Fitter shared by two simulated users who interleave up to 6 fit calls over a pool of Source '
            'objects (re-used objects, both users on the same object, in-place edits of a Source through its arrays between fits) with failing '
            'calls in between; every result is compared bit-exactly with a fresh Fitter\'s on a fresh Source of the current content; the '
            'Source, the model store and earlier results (arrays and metadata) must be untouched, also after other Fitters on other packages '
            'have run. The permutation and flux-scaling clauses are paired-world relations (pure; checked here only because the run owns both '
            'worlds).',
            'Bit-equality only between identically constructed Fitters in one process; paired-world numerics within 1e-9 and only for '
            'well-conditioned regressions; rankings may differ inside exact ties.',
            'deterministic simulation: seeded interleavings of calls and in-place edits by two users on one shared Fitter with failing calls as faults, fresh-fitter differential oracle; paired-world relations',
            'DESIGN.md section 5 (C11)'),
    'C12': ('exploration',
            'Storage round trip in the shape of a simulated store: seeded histories of puts and gets of SEDs, cubes and convolved-flux tables on '
            'a small shared directory (including x.fits next to x.fits.gz) against an in-memory map, with overwrites by objects of another shape, '
            'read knobs (order, stored unit, memmap) and cube objects that stay memory-mapped across an overwrite of their file. Cells are matched '
            'by (model name, aperture value, wavelength value). The statement is fault-free, so no fault is injected: the simulator contributes '
            'the operation histories and knobs; the cell comparison itself is ordinary model-based checking, and it is claimed at that level.',
            'SED values within 1e-12 (read multiplies and divides by nu), cube/convolved cells exactly; for an SED written without apertures '
            'only the single row of values is required.',
            'deterministic simulation (narrow): seeded put/get/overwrite histories on real files against an in-memory reference map, no fault injection (fault-free statement)',
            'DESIGN.md section 5 (C12)'),
    'C16': ('exploration',
            'The memory limit is treated as a tuning knob that must not change the result: for every seeded per-file world and every '
            'generated wavelength window the monochromatic convolver is run with EVERY chunk size 1..n_wav plus the default, each into a fresh '
            'convolved/ under a permuted directory listing, optionally after a prelude epoch (a previous package convolved in the same directory '
            'and process); the returned table, the set of files, FILTWAV, row order and every cell are compared with the author\'s arrays, and a '
            'digest of (files, contents) must be identical across chunk sizes. Cube clause: Fitters with wavelength "filters" (any length unit) '
            'at/between/outside tabulated wavelengths, memmap on/off, cube in either spectral order. Worlds and windows are sampled by seed; the '
            'chunk-size dimension is enumerated completely for each.',
            'Window ends that coincide with a tabulated wavelength may go either way (but identically for all chunk sizes); empty windows and '
            'half-way requests are outside the quantifier; float32 model store tolerance derived from float32 rounding of the flux and of its log10.',
            'deterministic simulation: seeded worlds/windows x complete enumeration of the chunk-size knob under listing permutation and same-directory history; reference-array and cross-knob differential oracles',
            'DESIGN.md section 5 (C16)'),
    'C17': ('exploration',
            'Cross-stage simulated runs: cube packages (single-aperture distance-independent, multi-aperture distance-dependent, f4/f8, either '
            'spectral storage order) fitted at tabulated wavelengths given in any length unit, with stored predictions (memmap on/off), '
            'optionally after a prelude epoch (a previous cube fitted and plotted in the same directory and process), then histories of plot() '
            'calls in all four display modes with N=1..5, plot_max, show_convolved, memmap knob, via the path or the result object, optionally '
            'after another consumer ran on the same object. From the returned LineCollection: number of curves = fits x apertures shown, best '
            'fit drawn last, and at every fitted wavelength the curve for that filter\'s aperture passes through 10^model_fluxes mJy x nu within 1e-3.',
            'No rendering (output_dir=None); 1e-3 covers the KPC constant in plot.py (2.1e-4); aperture radii kept >= 2 % inside the table; >= 2 '
            'distinct apertures.',
            'deterministic simulation: seeded fit->plot histories over channels, prior consumers, same-directory history and memmap/storage/unit knobs; stored-prediction cross-stage oracle',
            'DESIGN.md section 5 (C17)'),
    'C18': ('exploration',
            'Seeded scenarios: real fit files of 1..10 sources routed by filter_output into two writers, chi|cpd thresholds over 8 decades '
            '(including ones that send every source to one side), explicit or automatic names (found by directory diff), input as path or list, '
            'and histories of up to 3 splits: a second split of the good/bad file, or re-filtering the same input with the earlier outputs still '
            'lying around under the same names. Outputs are read with the harness pickle reader and compared record by record: union, '
            'disjointness, order, membership, metadata, input untouched.',
            'Trusts the input records (C10); thresholds equal to an attained value are not judged.',
            'deterministic simulation: seeded record streams routed to two simulated output files, channels, compositions and left-over outputs; partition oracle',
            'DESIGN.md section 5 (C18)'),
    'C19': ('fault_enumeration',
            'Seeded writer histories (fit() and filter_output() as writers over real packages, and records of 0..6000 fits built through the public '
            'class and written by the real FitInfoFile.write; 1..4 records, with/without stored fluxes) crossed with crash points: every byte offset '
            'of every written file in thorough (boundaries +-3, all offsets of small files and a seeded sample in quick), plus crash/ENOSPC '
            'injected into the live writer through the open seam and a concurrent reader run from inside the writer\'s write/readline events. '
            'Evidence, not proof: the history space is sampled, the offsets of each sampled history are enumerated (large synthetic files: '
            'boundaries + a dense seeded sample).',
            'Trusts: pickle and numpy of the sandbox; that a crash leaves exactly the bytes whose write() returned plus a prefix of the '
            'cut write (unbuffered SimFile); ground truth for "written records" is sedfitter\'s reader on the complete file (and, for the '
            'synthetic family, the objects handed to the writer).',
            'deterministic simulation: seeded histories x enumerated crash offsets, live crash/ENOSPC fault injection via injected open(), observer reads at seam events',
            'DESIGN.md section 5 (C19)'),
}

NOT_APPLICABLE = {
    'C01': 'pure function of (source, model grid, A_V range); the regression reads no clock, file, or state that outlives the call, so there is no schedule, fault or history to simulate',
    'C02': 'pure function of (source, package contents, distance range, step); the distance grid and interpolation involve no environment choice, fault or history',
    'C03': 'a relation between the outputs of one stateless call on two inputs; nothing for a scheduler or fault injector to vary',
    'C04': 'post-condition of one stateless call (sort + gather); no history, I/O fault or knob enters',
    'C06': 'arithmetic on two in-memory arrays (Filter.rebin, integrate_subset); no I/O, time or state (its maths is used as an oracle component inside C08)',
    'C13': 'pure function of (table, requested radii); no schedule, fault or history',
    'C14': 'pure function of (opacity table, wavelengths); its pickling is exercised but not decided by C10\'s metadata comparison',
    'C15': 'pure function of (spectrum, units, distance); no schedule, fault or history',
    'C20': 'pure function of one text line; the end-of-input clause is exercised but not decided by C10\'s data-stream workload',
}
# dimensions added to the workloads after the seeded-change rounds (DESIGN.md section 5 "As built", section 12)
ALSO = {
    'C05': 'selectors handed over as tuple or list with python or numpy numbers; flags held as list / tuple / float / uint8 / big-endian arrays; a sibling result selected in between; rankings of 1100-140000 fits with a relative selector cutting inside them; plot() of several sources in one call with plot_max and a threshold tuned on one of them (curves per source counted); a two-record file hop with an in-place edit between the writes',
    'C07': 'one model SED with a NaN / inf hole (NaN-aware comparisons); filters in either frequency order, built in memory or read from files, the same Filter objects handed to every call; aperture axis stored in any order; cube validity flags; SEDS column order; seven unit spellings; finely sampled SEDs (1030-4200 wavelengths); a model on another grid with the same size and end points; bystander Fitters; remove_resolved',
    'C08': 'models.conf in every accepted spelling; distance ranges in kpc / pc / cm / lyr incl. a single distance; extinction laws in any length / opacity unit; grids of up to 16421 models with the planted model in the tail; aperture axis stored in any order; zero-band and shell models; parameter columns in float64/float32/int64 with names like AV/SCALE; negative A_V ranges; unit spellings; left-over compressed convolved files',
    'C09': 'additional-parameter values of exactly 0; parameter columns called L / M / NAME / MODEL; parameter columns stored as float64 / float32 / int64, named like the fitter\'s own quantities or wider than a listing column, NaN values; additional parameters of mixed int/float type; grids of 1030-4200 models; extract_parameters options',
    'C10': 'an intruder user who fits another package, writes, reads and lists a fit file of their own while the results are held; catalogue-style and duplicate source names; lines typed with tabs / aligned columns / exponent notation; twin sources built independently of sedfitter\'s line parser; catalogues of 101-130 sources and grids of 1100-2100 models; a manual-writer family (Fitter.fit + FitInfoFile.write over re-used, edited Source objects); plot() with sources= / manual axes / labels off',
    'C11': 'five sources using different sub-sets of the bands and the first again (remove_resolved); a fourth paired world (model names dealt out to the same SEDs in another way; one SED on another grid); sources held as lists, tuples, big-endian, strided or integer arrays (references from plain float lists); shell models with remove_resolved; a filter listed twice with other apertures; name / wavelength filter lists; bystander Fitters',
    'C12': 'objects read from one file and written to another as they are; spectral axis handed over as wavelengths or frequencies in any unit; the same object written twice; apertures of the stored objects in any order (cells keyed by aperture value); model names from one pool shared by all objects of a history, every model of a cube extracted; uncertainties in another unit; reads in another unit family',
    'C16': 'a named band before / between / after the wavelength filters of a cube fit; memory limits as int32 / int64 / float32; aperture axis stored in any order; unit spellings incl. MJy / uJy / legacy MJY; float32 wavelength columns with window ends within rounding of tabulated wavelengths; re-runs over left-overs of another epoch',
    'C17': 'law tables narrower than the models; an earlier plot of the same source with the same apertures and other wavelengths; cubes tabulated at 2-5 wavelengths all of which are fitted; extinction laws in any unit; cubes of 1030-4200 wavelengths; validity flags; aperture axis in any order; apertures beyond the table (judged where the clamp is exact); negative A_V; filters in any order; wavelengths in any length unit',
    'C18': 'one name explicit and one automatic; input files written by the harness (not by the writer under test); thresholds handed over as float / int / int64 / float32; explicit names containing auto / good / bad, in sub-directories or next to the input; \'auto\' built at run time; best chi^2 of exactly 0 and one ulp from threshold x n_data; re-used output names',
    'C19': 'a complete control file (written the other way round) read again after the cuts; records yielded before a reader error are judged too; a post-processing function run on the cut file before / after the judged read; earlier generations written to and read from the same path before the judged file; cuts applied to the path itself with sibling files present; observer reads of the growing file',
}

PENDING = {}   # id -> reason, for properties whose check is planned but not built yet

ALL = ['C%02d' % i for i in range(1, 21)]

def main():
    checks = []
    for pid in sorted(CLAIMED):
        level, text, note, tech, ref = CLAIMED[pid]
        checks.append({
            'property_id': pid,
            'quick_cmd': './check %s quick' % pid,
            'thorough_cmd': './check %s thorough' % pid,
            'evidence_file': 'evidence/%s.json' % pid,
            'replay_cmd_template': './check %s --replay {path}' % pid,
            'engine': 'pipesim',
            'level_claimed': {'category': level, 'text': text + ' Also varied: ' + ALSO[pid] + '.', 'design_ref': ref},
            'level_note': note,
            'technique': tech,
        })
    na = []
    for pid in ALL:
        if pid in CLAIMED:
            continue
        reason = NOT_APPLICABLE.get(pid) or PENDING.get(pid)
        if reason is None:
            reason = 'check planned (DESIGN.md section 5) but not built yet; not claimed until it is'
        na.append({'property_id': pid, 'reason': reason})
    m = {
        'version': 1,
        'setup_cmd': './setup.sh',
        'hooks': {'guard': 'SEDFITTER_VERIF', 'enable': 'none needed: the seams are module attributes injected by the harness at run time (DESIGN.md 3.9); no hook code exists in /repo',
                  'baseline_off_cmd': 'cd /repo && /venv/bin/python -m pytest -ra -q -p no:cacheprovider --timeout=900 --continue-on-collection-errors',
                  'source_commits': [], 'add_only': True},
        'engines': [{'name': 'pipesim', 'path': 'pipesim/', 'serves_properties': sorted(CLAIMED),
                     'kind_free_text': 'deterministic simulation with fault injection: seeded scenario generator -> explicit JSON scenario (= replay file) -> executor over real sedfitter code with injected open/glob/time/input/mkdtemp seams; ddmin minimisation; 16 forked workers, each scenario executed in a child forked for it; a slice of every batch runs in an interpreter started with -O'}],
        'checks': checks,
        'not_applicable': na,
        'notes': 'All checks run /repo\'s working tree (editable install, asserted at start). VERIF_SEED selects the seed. See DESIGN.md.',
    }
    with open(os.path.join(HERE, 'MANIFEST.json'), 'w') as f:
        json.dump(m, f, indent=1)
    try:
        import jsonschema
        jsonschema.validate(m, json.load(open('/root/.vp/MANIFEST.schema.json')))
        print('MANIFEST.json valid; claimed:', sorted(CLAIMED))
    except ImportError:
        print('written (jsonschema not available to validate)')

if __name__ == '__main__':
    main()
