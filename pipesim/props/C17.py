"""C17 - plotted model SEDs are the fitted models.

plot() is a second process that re-reads the package by the path stored in the record, possibly after other consumers
ran on the same result objects: cross-stage agreement between what the fitter stored and what the plotter draws, under
channel (path / object), history, memmap and cube-storage knobs.
"""
import os
import random

import numpy as np

from .. import env, pipe
from ..author import World, gen_world, gen_source, make_source
from ..ref import nu_of
from ..runner import Outcome

ID = 'C17'
LEVEL = 'exploration'
MODES = ['interp', 'largest', 'largest+smallest', 'all']
RULE = ('Seeded cube packages (single-aperture distance-independent, or multi-aperture distance-dependent; f4/f8; either spectral storage '
        'order) fitted at 2..5 tabulated wavelengths with stored predicted fluxes (memmap on/off); distance range keeps theta*d inside the '
        'aperture table by >= 2 %. Then 1..4 steps: plot(select_format=(N,1..5), sed_type in the four display modes, memmap knob) via a path '
        'or the result object, optionally preceded by another consumer (write_parameters / extract_parameters) on the same object. '
        'Non-trivial = at least one curve point compared; distinct = distinct (mode kind, n_ap, dtype, storage order, per step (consumer '
        'before?, channel, display mode, #fits, #apertures shown)).')
ASSUMPTIONS = ['curve points are compared with 10^model_fluxes mJy x nu in erg/cm^2/s within 1e-3 relative (KPC = 3.086e21 in plot.py vs astropy kpc is 2.1e-4)',
               'apertures are generated with >= 2 distinct values so that "smallest" and "largest" differ',
               'aperture radii are kept below the largest tabulated aperture by >= 2 % (the 0.999 clamp of interpolate_variable is outside the statement)']
PROBES = ['mode_interp', 'mode_largest', 'mode_largest+smallest', 'mode_all', 'multi_aperture', 'single_aperture', 'channel_path', 'channel_obj',
          'consumer_before_plot', 'plot_memmap_off', 'f4_storage', 'fewer_models_than_requested', 'best_fit_last_checked', 'wavelengths_in_other_unit', 'prelude_epoch', 'filters_not_in_wavelength_order', 'aperture_beyond_table_judged', 'finely_sampled_sed', 'every_tabulated_wavelength_fitted', 'earlier_plot_same_apertures_other_wavelengths', 'fitted_wavelength_outside_the_law_table']


def budgets(tier):
    if tier == 'quick':
        return {'runs': 4000, 'max_wall': 115, 'chunk': 15}
    return {'runs': 25000, 'max_wall': 1700, 'chunk': 10}


def generate(rng, tier, idx):
    w = gen_world(rng, fmt=2, n_models=(1, 6), n_wav=(6, 30), n_filters=(1, 1), n_ap=(2, 5), n_par=(1, 1), allow_gz=False, allow_subdir=False)
    w['ext_n'] = 40
    # the extinction law need not be tabulated over the whole wavelength range of the models (it is zero outside its table)
    w['ext_range'] = rng.choice([[-2, 4], [-2, 4], [-0.5, 1.5], [-0.4, 0.9]])
    if rng.random() < 0.03:
        # a finely sampled SED: more wavelengths than any plausible internal block size
        w['n_wav'] = rng.choice([1030, 1100, 1500, 2100, 4200])
        w['n_models'] = min(w['n_models'], 3)
    nf = rng.randint(2, min(5, w['n_wav']))
    if w['n_wav'] < 1000 and rng.random() < 0.1:
        # a grid tabulated at the survey bands only: every tabulated wavelength is fitted, each exactly once
        w['n_wav'] = rng.randint(2, 5)
        nf = w['n_wav']
    sc = {'world': w, 'nf': nf, 'idx_seed': rng.randrange(1 << 30), 'theta_seed': rng.randrange(1 << 30), 'fit_memmap': rng.random() < 0.5,
          'av_range': [rng.choice([0.0, 0.0, -3.0, -0.5, 1.0]), round(rng.uniform(2, 15), 2)], 'source_seed': rng.randrange(1 << 30),
          'dmin': float('%.4g' % (10 ** rng.uniform(-1, 0.3))), 'dspan': float('%.4g' % (10 ** rng.uniform(0, 0.3))),
          'n_theta': rng.randint(2, 3),
          # the unit in which the user gives the monochromatic wavelengths (any length unit is legal)
          'wav_unit': rng.choice(['micron', 'micron', 'Angstrom', 'nm', 'mm', 'cm', 'm']),
          # apertures that, at the fitted distance, reach beyond the largest tabulated aperture (the fitter then uses the largest one)
          'beyond': rng.random() < 0.3,
          'single_distance': rng.random() < 0.25, 'earlier_plot': rng.random() < 0.3}
    steps = []
    for _ in range(rng.randint(1, 4)):
        steps.append({'op': 'plot', 'mode': rng.choice(MODES), 'nsel': rng.randint(1, 5), 'channel': rng.choice(['path', 'obj']),
                      'memmap': rng.random() < 0.5, 'before': rng.choice([None, None, 'wp', 'ep']),
                      'show_convolved': rng.random() < 0.3, 'plot_max': rng.choice([None, None, None, 2])})
    sc['steps'] = steps
    if rng.random() < 0.3:
        from ..author import prelude_spec
        sc['prelude'] = {'world': prelude_spec(w, rng), 'seed': rng.randrange(1 << 30)}
    return sc


def _curve_at(sg, lam):
    """value of a drawn curve at wavelength lam: the vertex there, or (the plot has log axes) the log-log interpolant"""
    x, y = sg[:, 0], sg[:, 1]
    kk = int(np.argmin(np.abs(x - lam)))
    if abs(x[kk] - lam) <= 1e-6 * lam:
        return float(y[kk])
    order = np.argsort(x)
    xs, ys = x[order], y[order]
    if lam < xs[0] or lam > xs[-1]:
        return None
    with np.errstate(all='ignore'):
        return float(10 ** np.interp(np.log10(lam), np.log10(xs), np.log10(ys)))


def execute(sc):
    out = Outcome()
    sim = env.Sim('c17')
    try:
        with sim:
            _execute(dict(sc), sim, out)
    finally:
        out.absorb_sim(sim)
        sim.cleanup()
    return out


def _execute(sc, sim, out):
    from astropy import units as u
    from sedfitter import plot, write_parameters, extract_parameters
    spec = sc['world']
    W = World(spec)
    apdep = W.apdep
    if sc.get('prelude'):
        # the previous occupant of the directory: same names and layout, other numbers; fitted and plotted in this process
        Wp = World(sc['prelude']['world'])
        dp = Wp.write(sim.path('pkg'), fmt=2)
        out.probe('prelude_epoch')
        sim.fired('prelude_epoch')
        rp0 = pipe.call(pipe.Fitter, [x * u.micron for x in Wp.wav[:2]], [3.0, 3.0] * u.arcsec, dp, extinction_law=Wp.extinction(),
                        av_range=[0., 1.], distance_range=[1., 1.] * u.kpc, use_memmap=False)
        if rp0[0] == 'ok':
            rp1 = pipe.call(rp0[1].fit, make_source({'name': 'old', 'x': 0., 'y': 0., 'valid': [1, 1], 'flux': [1., 2.], 'error': [.1, .1]}))
            if rp1[0] == 'ok':
                for mm in (True, False):
                    pipe.call(plot, rp1[1], select_format=('N', 1), sed_type='largest', memmap=mm)
    d = W.write(sim.path('pkg'), fmt=2)
    rng = random.Random(sc['idx_seed'])
    nf = min(sc['nf'], W.n_wav)
    idx = rng.sample(range(W.n_wav), nf)            # the filter list is in any order, not sorted by wavelength
    if sc.get('sorted_filters'):
        idx = sorted(idx)
    else:
        out.probe('filters_not_in_wavelength_order', int(idx != sorted(idx)))
    fw = W.wav[idx]
    trng = random.Random(sc['theta_seed'])
    if apdep:
        dmin = sc['dmin']
        dmax = dmin * (1.0 if sc.get('single_distance') else sc['dspan'])
        lo_t = W.aps[0] * 1.02 / (dmin * 1000.)
        hi_t = W.aps[-1] * (2.5 if sc.get('beyond') else 0.98) / (dmax * 1000.)
        if lo_t >= hi_t:
            out.discarded = 'aperture-range-too-narrow'
            return
        pool = sorted(set(round(trng.uniform(lo_t, hi_t), 9) for _ in range(sc['n_theta'])))
        out.probe('multi_aperture')
    else:
        dmin, dmax = 1.0, 2.0
        pool = sorted(set(round(trng.uniform(1, 5), 6) for _ in range(sc['n_theta'])))
        out.probe('single_aperture')
    if len(pool) < 2:
        out.discarded = 'apertures-not-distinct'
        return
    theta = [pool[0], pool[-1]] + [trng.choice(pool) for _ in range(nf - 2)]
    trng.shuffle(theta)
    theta = np.array(theta[:nf])
    if len(set(theta)) < 2:
        theta[0], theta[-1] = pool[0], pool[-1]
    if spec['dtype'] == 'f4':
        out.probe('f4_storage')
    if W.n_wav > 1000:
        out.probe('finely_sampled_sed')
    if nf == W.n_wav:
        out.probe('every_tabulated_wavelength_fitted')
    if np.any((fw < W.ext_wav[0]) | (fw > W.ext_wav[-1])):
        out.probe('fitted_wavelength_outside_the_law_table')
    wunit = u.Unit(sc.get('wav_unit', 'micron'))
    if sc.get('wav_unit', 'micron') != 'micron':
        out.probe('wavelengths_in_other_unit')
    if sc.get('earlier_plot') and nf > 1:
        # the analyst looked at the same source before, fitted with the same apertures at the same distance(s) but with
        # the wavelengths in another order, and plotted that result in the same process
        fw0 = np.roll(fw, 1)
        r0 = pipe.call(pipe.Fitter, [x * u.micron for x in fw0], theta * u.arcsec, d, extinction_law=W.extinction(), av_range=list(sc['av_range']),
                       distance_range=[dmin, dmax] * u.kpc, use_memmap=False)
        if r0[0] == 'ok':
            s0 = gen_source(random.Random(sc['source_seed']), nf, 'earlier', flags=(1,), min_fit=1)
            r0 = pipe.call(r0[1].fit, make_source(s0))
            if r0[0] == 'ok':
                for m0 in ('interp', 'all'):
                    pipe.call(plot, r0[1], select_format=('N', 3), sed_type=m0)
                out.probe('earlier_plot_same_apertures_other_wavelengths')
                sim.fired('earlier_plot')
    r = pipe.call(pipe.Fitter, [(x * u.micron).to(wunit) for x in fw], theta * u.arcsec, d, extinction_law=W.extinction(), av_range=list(sc['av_range']),
                  distance_range=[dmin, dmax] * u.kpc, use_memmap=sc['fit_memmap'])
    if r[0] != 'ok':
        out.discarded = 'setup-fitter:' + pipe.exc_name(r)
        return
    s = gen_source(random.Random(sc['source_seed']), nf, 'src', flags=(1,), min_fit=1)
    r = pipe.call(r[1].fit, make_source(s))
    if r[0] != 'ok':
        out.discarded = 'setup-fit:' + pipe.exc_name(r)
        return
    info = r[1]
    mf = np.asarray(getattr(info.model_fluxes, 'value', info.model_fluxes), float).copy()
    scl = np.asarray(getattr(info.sc, 'value', info.sc), float).copy()
    if not np.all(np.isfinite(mf)):
        out.discarded = 'non-finite-prediction'
        return
    nu = nu_of(fw)
    path = sim.path('res.fitinfo')
    pipe.write_fit_file(path, [info])
    trace = ['apdep' if apdep else 'free', W.n_ap, spec['dtype'], spec['asc']]
    ua = np.unique(theta)
    for i, st in enumerate(sc['steps']):
        mode = st['mode']
        arg = path if st['channel'] == 'path' else info
        out.probe('channel_' + st['channel'])
        if st['before']:
            out.probe('consumer_before_plot')
            if st['before'] == 'wp':
                rb = pipe.call(write_parameters, arg, sim.path('wp%d.txt' % i), select_format=('N', 1))
            else:
                os.makedirs(sim.path('ep%d' % i), exist_ok=True)
                rb = pipe.call(extract_parameters, arg, sim.path('ep%d' % i, 'x_'), select_format=('N', 1))
            if rb[0] != 'ok':
                out.discarded = 'setup-consumer:' + pipe.exc_name(rb)
                return
        if not st['memmap']:
            out.probe('plot_memmap_off')
        rp = pipe.call(plot, arg, select_format=('N', st['nsel']), sed_type=mode, memmap=st['memmap'], show_convolved=bool(st.get('show_convolved')),
                       plot_max=st.get('plot_max'))
        out.probe('mode_' + mode)
        what = 'plot(%s, N=%d, via %s%s)' % (mode, st['nsel'], st['channel'], ', after %s' % st['before'] if st['before'] else '')
        if rp[0] != 'ok':
            out.violate('plot-failed', '%s raised %s: %s' % (what, pipe.exc_name(rp), rp[1]),
                        key='%s/%s@%s' % (mode, pipe.exc_name(rp), pipe.where(rp[1]) if rp[0] == 'exc' else ''))
            break
        figs = rp[1]
        if 'src' not in figs or 'lines' not in figs['src']:
            out.violate('no-curves', '%s returned no line collection for the source' % what)
            break
        segs = figs['src']['lines'].get_segments()
        k = min(st['nsel'], W.n_models)
        if st.get('plot_max'):
            k = min(k, st['plot_max'])
        if st['nsel'] > W.n_models:
            out.probe('fewer_models_than_requested')
        shown = {'interp': [None], 'largest': [theta.max()], 'largest+smallest': [theta.min(), theta.max()], 'all': list(ua)}[mode]
        out.compared('curve-count')
        if len(segs) != k * len(shown):
            out.violate('curve-count', '%s drew %d curves for %d selected fits x %d apertures shown' % (what, len(segs), k, len(shown)), key=mode)
            break
        bad = None
        ns = len(shown)
        blocks = [[np.asarray(x, float) for x in segs[g * ns:(g + 1) * ns]] for g in range(k)]   # curves are added fit by fit

        def block_fits(block, fit_i):
            """does this group of curves belong to fit fit_i? -> (True, None) or (False, why)"""
            pred = 10. ** mf[fit_i] * 1e-26 * nu
            for a in shown:
                js = [j for j in range(nf) if a is None or theta[j] == a]
                if a is None and apdep:
                    # the composite curve clamps at 0.999 x the largest aperture (outside the statement): points whose
                    # aperture reaches beyond the table are judged in the other display modes, where the clamp is exact
                    js = [j for j in js if theta[j] * 10. ** scl[fit_i] * 1000. <= W.aps[-1] * 0.98]
                    if len(js) < nf:
                        out.probe('aperture_beyond_table_skipped_in_interp')
                elif apdep and any(theta[j] * 10. ** scl[fit_i] * 1000. > W.aps[-1] for j in js):
                    out.probe('aperture_beyond_table_judged')
                why = None
                for sg in block:
                    ok = True
                    for j in js:
                        y = _curve_at(sg, fw[j])
                        if y is None:
                            ok, why = False, 'curve does not cover the fitted wavelength %.6g um' % fw[j]
                            break
                        dev = abs(y / pred[j] - 1)
                        if not dev <= 1e-3:
                            ok = False
                            why = 'aperture %s: at %.6g um the curve is at %.6g, the stored prediction of fit %d (model %s) is %.6g (rel. dev. %.3g)' % (
                                'interp' if a is None else '%.4g"' % a, fw[j], y, fit_i + 1, str(info.model_name[fit_i]).strip(), pred[j], dev)
                            break
                    if ok:
                        why = None
                        break
                if why is not None:
                    return False, why
            return True, None

        def max_dev(block, fit_i):
            pred = 10. ** mf[fit_i] * 1e-26 * nu
            m_ = 0.0
            for a in shown:
                best = np.inf
                for sg in block:
                    d_ = 0.0
                    for j in [j for j in range(nf) if a is None or theta[j] == a]:
                        y = _curve_at(sg, fw[j])
                        d_ = max(d_, abs(y / pred[j] - 1) if y is not None else np.inf)
                    best = min(best, d_)
                m_ = max(m_, best)
            return m_
        out.compared('curve-point', k * nf)
        okl, why = block_fits(blocks[-1], 0)
        if not okl:
            other = [f_ for f_ in range(1, k) if block_fits(blocks[-1], f_)[0]]
            bad = ('best-not-last' if other else 'curve-point',
                   '%s: the curves drawn last do not belong to the best fit%s: %s' % (what, ' but to fit %d' % (other[0] + 1) if other else '', why))
        else:
            out.dev('curve-point', max_dev(blocks[-1], 0) / 1e-3)
            # the other groups may come in any order: look for ANY one-to-one assignment of groups to the other fits
            # (k <= 5, so all permutations can be tried; near-identical models make a greedy choice unsafe)
            import itertools
            table = [[block_fits(blocks[g], f_)[0] for f_ in range(1, k)] for g in range(k - 1)]
            if not any(all(table[g][perm[g]] for g in range(k - 1)) for perm in itertools.permutations(range(k - 1))):
                g_bad = next((g for g in range(k - 1) if not any(table[g])), 0)
                f_des = k - 1 - g_bad          # the fit this group belongs to when fits are drawn from worst to best
                bad = ('curve-point', '%s: the curve groups before the last cannot be matched one-to-one to the other selected fits; group %d against fit %d: %s' % (
                    what, g_bad + 1, f_des + 1, block_fits(blocks[g_bad], f_des)[1]))
        if k > 1:
            out.probe('best_fit_last_checked')
        if bad:
            out.violate(bad[0], bad[1], key=mode)
            break
        trace.append((bool(st['before']), st['channel'], mode, k, len(shown)))
    out.trace = trace


def lowerings(sc, viol=None):
    if sc.get('earlier_plot'):
        yield dict(sc, earlier_plot=False)
    if sc.get('prelude'):
        yield dict(sc, prelude=None)
    for i, st in enumerate(sc['steps']):
        for key, val in (('before', None), ('channel', 'obj'), ('memmap', True), ('nsel', 1)):
            if st[key] != val:
                yield dict(sc, steps=sc['steps'][:i] + [dict(st, **{key: val})] + sc['steps'][i + 1:])
    if sc['fit_memmap']:
        yield dict(sc, fit_memmap=False)
    if sc['nf'] > 2:
        yield dict(sc, nf=2)
    w = sc['world']
    for key, lo in (('n_models', 1), ('n_ap', 2), ('n_wav', 6)):
        if w[key] > lo and not (key == 'n_ap' and not w['apdep']):
            yield dict(sc, world=dict(w, **{key: lo}))
    for key, val in (('dtype', 'f8'), ('asc', False)):
        if w.get(key) != val:
            yield dict(sc, world=dict(w, **{key: val}))
    if sc.get('wav_unit', 'micron') != 'micron':
        yield dict(sc, wav_unit='micron')
    if not sc.get('sorted_filters'):
        yield dict(sc, sorted_filters=True)
