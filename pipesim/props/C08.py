"""C08 - a planted model is recovered through the whole pipeline.

Photometry is synthesised by the reference model (independent exact integrator, aperture interpolation, extinction law)
from model m at (A_V0, d0 | scale); then the real stages run in the simulator - convolve (permuted listing, memmap knob,
optional crash + rerun), fit() from a path or a simulated stream (clock profile, optional crash + restart through the
prompt), write_parameters - and must rank m first with chi^2 ~ 0, the planted A_V and scale, and m's own parameter row.
"""
import os
import random

import numpy as np

from .. import env, pipe
from ..author import World, gen_world
from ..ref import (ref_convolve, ref_interp_ap, ref_k, ref_distance_grid, lsq_two, lsq_one)
from ..runner import Outcome
from .C07 import _WriteFault
from . import C09 as _c9

ID = 'C08'
LEVEL = 'exploration'
RULE = ('Seeded worlds (one package format per run, aperture-dependent or not, f4/f8, either spectral storage order, filters stored in '
        'either frequency order and with any overlap with the SED range) with 1..4 planted sources each (model m, A_V0 inside the range '
        'including its ends, grid distance d0 including the ends of the range or a free scale; relative errors 0.1-30 %; flag-1 points '
        'pre-compensated for the log bias or flag-4 points; extra bands flagged 0/9 with garbage; limits on the permitted side), run through '
        'convolve -> fit() -> write_parameters under listing permutation, memmap knob, clock profile, stream form and crash+rerun of either '
        'stage. Plantings the reference least-squares calls degenerate (another model or grid distance within chi^2 < 1, singular normal '
        'matrix) are discarded and counted. Non-trivial = at least one planting judged; distinct = distinct (format, mode, dtype, orders, '
        'fault kinds, per source (planted end/interior A_V, distance position, #fitted bands, flag kinds)).')
ASSUMPTIONS = ['the planted truth comes from the harness\'s own exact piecewise-linear integrator, not from sedfitter',
               'A_V / free scale are compared within a bound conditioned on the reference normal matrix (10 x delta x |(A^T W A)^-1 A^T W| + 1e-9), '
               'delta = 1e-13 per-file packages, 1e-7 cube packages (float32 model store), 3e-7 cube packages stored as f4',
               'degenerate plantings are discarded by the reference, not failed']
PROBES = ['planted_av_at_range_end', 'planted_distance_at_range_end', 'planted_distance_interior', 'aperture_clamped', 'flag4_point', 'limit_band',
          'garbage_band', 'filter_desc_order', 'filter_partial_overlap', 'convolve_crash_rerun', 'fit_crash_restart', 'degenerate_discarded',
          'singular_discarded', 'apdep', 'free_scale', 'params_row_checked', 'prelude_epoch', 'object_route', 'intruder_fit', 'other_model_with_zero_band']


def budgets(tier):
    if tier == 'quick':
        return {'runs': 3000, 'max_wall': 115, 'chunk': 8}
    return {'runs': 15000, 'max_wall': 1700, 'chunk': 6}


def generate(rng, tier, idx):
    w = gen_world(rng, n_models=(2, 6), n_wav=(12, 40), n_filters=(3, 5), n_ap=(2, 5), filt_desc=True, n_par=(1, 3), allow_zero_band=True)
    if w['format'] == 1 and rng.random() < 0.2:
        w['mixed'] = rng.randrange(w['n_models'])        # one SED on another wavelength grid (per-file packages only)
    big = rng.random() < (0.02 if tier == 'thorough' else 0.008)
    if big:
        # a grid larger than any plausible internal block size, and not a multiple of a power of two (cube format keeps it cheap)
        w.update(format=2, n_models=rng.choice([1030, 4100, 16421, 16421]), n_wav=12, n_ap=(2 if w['apdep'] else 1), asc_per_file=None, mixed=None,
                 zero_band=None, gz=False, subdir=0, n_par=1)
        w['flux_unit'] = w['flux_unit'] if w['flux_unit'] in ('mJy', 'Jy', 'MJY', 'MJy', 'uJy') else 'mJy'
    w['ext_n'] = 40
    nf = len(w['filters'])
    av_hi = round(rng.uniform(5, 30), 2)
    sc = {'world': w, 'av_range': [rng.choice([0.0, 0.0, 0.0, round(rng.uniform(0, 2), 2), -round(rng.uniform(0.5, 5), 2)]), av_hi],
          'listing_seed': rng.randrange(1 << 30), 'theta_seed': rng.randrange(1 << 30), 'clock': pipe.gen_clock(rng),
          'conv_memmap': rng.random() < 0.5, 'stream': rng.choice(['path', 'reader']),
          'conv_crash': ({'at': rng.randrange(nf), 'partial': rng.random() < 0.5} if rng.random() < 0.2 else None),
          'fit_crash': ({'frac': round(rng.random(), 4), 'kind': rng.choice(['crash', 'enospc'])} if rng.random() < 0.2 else None)}
    if rng.random() < 0.08:
        # a fixed, known extinction: the range is a single value
        a_ = round(rng.uniform(0.5, 12), 2)
        sc['av_range'] = [a_, a_]
    if w['apdep']:
        dmin = float('%.4g' % (10 ** rng.uniform(-1, 0.5)))
        dmax = dmin if rng.random() < 0.1 else float('%.4g' % (dmin * 10 ** rng.uniform(0.02, 0.6)))
        sc['drange'] = [dmin, dmax]
    else:
        sc['drange'] = [1.0, 2.0]
    plants = []
    for i in range(rng.randint(1, 4)):
        p = {'m': (rng.randrange(w['n_models']) if not (big and rng.random() < 0.6) else -1 - rng.randrange(30)), 'av_pick': rng.choice(['lo', 'hi', 'in', 'in']), 'av_u': rng.random(),
             'd_pick': rng.choice(['first', 'last', 'in', 'in']), 'd_u': rng.random(), 's0': round(rng.uniform(-1, 1), 4),
             'rel': [float('%.3g' % (10 ** rng.uniform(-3, np.log10(0.3)))) for _ in range(nf)],
             'kind': [rng.choice(['f1', 'f1', 'f1', 'f1', 'f4', 'lim', 'garbage0', 'garbage9']) for _ in range(nf)],
             'lim_conf': [rng.choice([0.0, 0.5, 0.9, 1.0]) for _ in range(nf)], 'g': [rng.choice([-999.0, 0.0, 1e-30, 12345.6, -3.0]) for _ in range(nf)]}
        plants.append(p)
    sc['plants'] = plants
    # the same planting through the object interface, the listing made from result objects that were never pickled,
    # optionally after another user fitted against another package in the same process
    sc['object_route'] = rng.random() < 0.5
    sc['intruder'] = rng.random() < 0.4
    if rng.random() < 0.3:
        from ..author import prelude_spec
        sc['prelude'] = {'world': prelude_spec(w, rng), 'seed': rng.randrange(1 << 30), 'leftover_gz': rng.random() < 0.4}
    return sc


def execute(sc):
    out = Outcome()
    sim = env.Sim('c08', clock=sc['clock'], listing_seed=sc['listing_seed'])
    try:
        with sim:
            _execute(dict(sc), sim, out)
    finally:
        out.absorb_sim(sim)
        sim.cleanup()
    return out


def _execute(sc, sim, out):
    from sedfitter import write_parameters
    spec = sc['world']
    W = World(spec)
    nf = len(W.fspec)
    fmt = spec['format']
    apdep = W.apdep
    rng = random.Random(sc['theta_seed'])
    theta = np.array(pipe.theta_for(W, rng, nf, dmin=sc['drange'][0]))
    sc['theta'] = list(theta)
    kj = ref_k(W.ext_wav, W.ext_chi, [f['center'] for f in W.fspec])
    # reference convolved fluxes (n_models, nf, n_ap)
    from ..ref import ref_rebin, nu_of
    Rcache = {}

    def conv_one(i, f):
        wv, v, _e = W.sed[i]
        key = (id(wv), f['name'])
        if key not in Rcache:
            Rcache[key] = ref_rebin(f['nu'], f['r'], nu_of(wv))
        return np.sum(np.asarray(v, float) * Rcache[key][None, :], axis=1)
    conv = np.array([[conv_one(i, f) for f in W.fspec] for i in range(W.n_models)])
    zero_models = set(int(i) for i in np.where(np.any(conv <= 0, axis=(1, 2)))[0])     # models with an exactly zero band
    if len(zero_models) >= W.n_models:
        out.discarded = 'non-positive-reference-flux'
        return
    if zero_models:
        out.probe('other_model_with_zero_band')
    for f, fs in zip(spec['filters'], W.fspec):
        if f.get('desc'):
            out.probe('filter_desc_order')
        nu_lo, nu_hi = fs['nu'].min(), fs['nu'].max()
        snu = 299792458.0e6 / W.wav
        if nu_lo < snu.min() or nu_hi > snu.max():
            out.probe('filter_partial_overlap')
    av_lo, av_hi = sc['av_range']
    if apdep:
        dmin, dmax = sc['drange']
        grid = ref_distance_grid(dmin, dmax, spec['logd_step'])
        out.probe('apdep')

        def mflux(i, dist):
            return np.array([ref_interp_ap(W.aps, conv[i, j], theta[j] * dist * 1000.) for j in range(nf)]) / dist ** 2
    else:
        out.probe('free_scale')
    delta = 1e-12 if fmt == 1 else (1e-7 if spec['dtype'] == 'f8' else 3e-7)
    lines = []
    truth_info = []
    for pi, p in enumerate(sc['plants']):
        m = p['m'] % W.n_models
        while m in zero_models:
            m = (m + 1) % W.n_models            # the planted model has strictly positive fluxes
        av0 = {'lo': av_lo, 'hi': av_hi}.get(p['av_pick'], av_lo + p['av_u'] * (av_hi - av_lo))
        if apdep:
            gi = {'first': 0, 'last': len(grid) - 1}.get(p['d_pick'], int(p['d_u'] * len(grid)) % len(grid))
            d0 = float(grid[gi])
            s0 = float(np.log10(d0))
            base = mflux(m, d0)
            if np.any(theta * d0 * 1000. > W.aps[-1]):
                out.probe('aperture_clamped')
        else:
            s0 = p['s0']
            base = conv[m, :, 0] * 10 ** (-2 * s0)
        truth = base * 10 ** (av0 * kj)
        kinds = list(p['kind'])
        fitted = [j for j in range(nf) if kinds[j] in ('f1', 'f4')]
        while len(fitted) < 3 and len(fitted) < nf:
            j = [x for x in range(nf) if x not in fitted][0]
            kinds[j] = 'f1'
            fitted.append(j)
        rel = np.array(p['rel'])
        valid, flux, err = [], [], []
        for j in range(nf):
            k = kinds[j]
            if k == 'f1':
                fo = truth[j] * 10 ** (0.5 * rel[j] ** 2 / np.log(10))
                valid.append(1)
                flux.append(fo)
                err.append(rel[j] * fo)
            elif k == 'f4':
                valid.append(4)
                flux.append(float(np.log10(truth[j])))
                err.append(rel[j] / np.log(10))
            elif k == 'lim':
                up = (pi + j) % 2 == 0
                valid.append(3 if up else 2)
                flux.append(truth[j] * (2.0 if up else 0.5))
                err.append(p['lim_conf'][j])
            else:
                valid.append(0 if k == 'garbage0' else 9)
                flux.append(p['g'][j] if k == 'garbage0' else abs(p['g'][j]) + 1e-3)
                err.append(p['g'][j] if k == 'garbage0' else 0.1)
        fj = np.array(sorted(fitted))
        w = (np.log(10) / rel[fj]) ** 2
        y = np.log10(truth[fj])
        kf = kj[fj]
        # degeneracy / conditioning, judged by the reference only
        if apdep:
            m11 = np.sum(w * kf * kf)
            if not (m11 > 0) or np.max(np.abs(kf)) < 1e-6:
                out.probe('singular_discarded')
                continue
            others = []
            for i in range(W.n_models):
                if i in zero_models:
                    continue
                for gd in grid:
                    if i == m and gd == d0:
                        continue
                    try:
                        others.append(lsq_one(kf, w, y - np.log10(mflux(i, gd)[fj]), av_lo, av_hi)[0])
                    except ValueError:
                        pass
            sens_av = np.sum(np.abs(kf * w) / m11)
            sens_sc = 0.0
            condN = 1.0
        else:
            A = np.stack([kf, -2 * np.ones(len(fj))], 1)
            N = A.T @ (w[:, None] * A)
            if len(fj) < 3 or np.linalg.cond(N) > 1e10 or (np.max(kf) - np.min(kf)) < 1e-4:
                out.probe('singular_discarded')
                continue
            others = [lsq_two(kf, w, y - np.log10(conv[i, fj, 0]), av_lo, av_hi)[0] for i in range(W.n_models) if i != m and i not in zero_models]
            P = np.linalg.inv(N) @ (A.T * w[None, :])
            sens_av = np.sum(np.abs(P[0]))
            sens_sc = np.sum(np.abs(P[1]))
            condN = float(np.linalg.cond(N))
        if others and min(others) < 1.0:
            out.probe('degenerate_discarded')
            continue
        name = 'p%d' % pi
        lines.append(' '.join([name, '0.0', '0.0'] + ['%d' % v for v in valid] + ['%.17e %.17e' % (a, b) for a, b in zip(flux, err)]) + '\n')
        truth_info.append({'name': name, 'm': m, 'av0': av0, 's0': s0, 'w': w, 'sens_av': sens_av, 'sens_sc': sens_sc, 'condN': condN, 'n_fit': len(fj),
                           'kinds': sorted(set(kinds)), 'av_pick': p['av_pick'], 'd_pick': p['d_pick'] if apdep else 'scale'})
        if p['av_pick'] in ('lo', 'hi'):
            out.probe('planted_av_at_range_end')
        if apdep:
            out.probe('planted_distance_at_range_end' if gi in (0, len(grid) - 1) else 'planted_distance_interior')
        for k in kinds:
            out.probe({'f4': 'flag4_point', 'lim': 'limit_band', 'garbage0': 'garbage_band', 'garbage9': 'garbage_band'}.get(k, ''), 1 if k != 'f1' else 0)
    trace = [fmt, apdep, spec['dtype'], spec['asc'], tuple(bool(f.get('desc')) for f in spec['filters']), sc['conv_crash'] is not None,
             None if sc['fit_crash'] is None else sc['fit_crash']['kind'], sc['stream'], sc['clock']['kind']]
    if not lines:
        out.discarded = 'all-plantings-degenerate'
        return
    # ---- stage 1: convolve
    if sc.get('prelude'):
        pipe.run_prelude(sim, sc, out, d=sim.path('pkg'))
    d = W.write(sim.path('pkg'), keep_convolved=bool(sc.get('prelude') and sc['prelude'].get('leftover_gz')))
    kw = {}
    if fmt == 2:
        kw['memmap'] = sc['conv_memmap']
    if sc['conv_crash'] is not None:
        with _WriteFault(sim, sc['conv_crash']['at'] % nf, sc['conv_crash']['partial']):
            r = pipe.call(pipe.convolve_model_dir, d, W.filters(), **kw)
        if r[0] != 'crash':
            out.violate('stage-failed', 'convolve_model_dir ended with %s: %s' % (r[0], r[1]), key='convolve/%s@%s' % (pipe.exc_name(r), pipe.where(r[1]) if r[0] == 'exc' else ''))
            out.trace = trace
            return
        out.probe('convolve_crash_rerun')
        kw['overwrite'] = True
    r = pipe.call(pipe.convolve_model_dir, d, W.filters(), **kw)
    if r[0] != 'ok':
        out.violate('stage-failed', 'convolve_model_dir raised %s: %s' % (pipe.exc_name(r), r[1]), key='convolve/%s@%s' % (pipe.exc_name(r), pipe.where(r[1])))
        out.trace = trace
        return
    # ---- stage 2: fit()
    names, ap = pipe.filter_args(W, sc)
    outp = sim.path('out.fitinfo')
    text = ''.join(lines)

    def run_fit():
        if sc['stream'] == 'path':
            data = sim.path('data.txt')
            with env.real_open(data, 'w') as f:
                f.write(text)
            src = data
        else:
            src = env.SimReader(sim, text)
        return pipe.call(pipe.fit, src, names, ap, d, outp, n_data_min=1, output_format=('A', 0), extinction_law=W.extinction(),
                         av_range=list(sc['av_range']), distance_range=(list(sc['drange']) * pipe.u.kpc).to(pipe.u.Unit(spec.get('d_unit', 'kpc'))))
    if sc['fit_crash'] is not None:
        side = run_fit()
        if side[0] == 'ok':
            L = os.path.getsize(outp)
            os.remove(outp)
            sim.arm('byte', sc['fit_crash']['kind'], min(L - 1, int(sc['fit_crash']['frac'] * L)), target=sim.rel(outp))
            r1 = run_fit()
            sim.faults = []
            if r1[0] in ('crash', 'exc'):
                out.probe('fit_crash_restart')
                sim.prompts.append('y')
    r = run_fit()
    if r[0] != 'ok':
        out.violate('stage-failed', 'fit() raised %s: %s' % (pipe.exc_name(r), r[1]), key='fit/%s@%s' % (pipe.exc_name(r), pipe.where(r[1]) if r[0] == 'exc' else ''))
        out.trace = trace
        return
    r = pipe.call(pipe.read_fit_raw, outp)
    if r[0] != 'ok' or len(r[1][1]) != len(truth_info):
        out.violate('stage-failed', 'fit file unreadable or holds %s records for %d planted sources' % (len(r[1][1]) if r[0] == 'ok' else pipe.exc_name(r), len(truth_info)), key='fitfile')
        out.trace = trace
        return
    recs = r[1][1]
    # ---- stage 3: write_parameters
    r = pipe.call(write_parameters, outp, outp + '.txt')
    if r[0] != 'ok':
        out.violate('stage-failed', 'write_parameters raised %s: %s' % (pipe.exc_name(r), r[1]), key='write_parameters/%s@%s' % (pipe.exc_name(r), pipe.where(r[1])))
        out.trace = trace
        return
    txt = env.real_open(outp + '.txt').read().splitlines()[3:]
    # ---- oracle
    for ti, (t, rec) in enumerate(zip(truth_info, recs)):
        chi = np.asarray(getattr(rec.chi2, 'value', rec.chi2), float)
        av = np.asarray(getattr(rec.av, 'value', rec.av), float)
        scl = np.asarray(getattr(rec.sc, 'value', rec.sc), float)
        first = str(rec.model_name[0]).strip()
        want = W.names[t['m']]
        out.compared('planting')
        chi_bound = 10 * np.sum(t['w']) * delta ** 2 + 1e-6
        # the closed-form 2x2 normal equations lose eps x cond(A^T W A) in double precision (very unequal weights and a large
        # A_V make that visible: 2e-9 on A_V = 29.5 was observed with weights spanning 4 decades); first-order term + that
        scale_ = max(1.0, abs(t['av0']), abs(t['s0']))
        round_ = 100 * 2.2e-16 * t['condN'] * scale_
        tol_av = 10 * delta * t['sens_av'] + 1e-9 + round_
        tol_sc = (10 * delta * t['sens_sc'] + 1e-9 + round_) if not apdep else 1e-6
        what = 'source %s planted from model %s at A_V %.6g, %s %.6g' % (t['name'], want, t['av0'], 'log10 d' if apdep else 'scale', t['s0'])
        if first != want:
            k = [str(x).strip() for x in rec.model_name].index(want) if want in [str(x).strip() for x in rec.model_name] else -1
            out.violate('planted-not-first', '%s: ranked first is %s (chi2 %.6g); the planted model is at rank %d with chi2 %s' % (
                what, first, chi[0], k + 1, chi[k] if k >= 0 else '?'))
            break
        out.dev('planted-chi2', chi[0] / chi_bound)
        if not (chi[0] <= chi_bound):
            out.violate('planted-chi2', '%s: chi2 of the planted model is %.6g (bound %.3g)' % (what, chi[0], chi_bound))
            break
        if len(chi) > 1 and np.isfinite(chi[1]) and not (chi[1] > 0.5):      # (a model with an exactly zero band has no finite chi^2)
            out.violate('runner-up', '%s: second-best chi2 is %.6g although the reference puts every other model above 1' % (what, chi[1]))
            break
        out.dev('planted-av', abs(av[0] - t['av0']) / tol_av)
        out.dev('planted-scale', abs(scl[0] - t['s0']) / tol_sc)
        if not (abs(av[0] - t['av0']) <= tol_av):
            out.violate('planted-av', '%s: reported A_V %.10g (off by %.3g, bound %.3g)' % (what, av[0], av[0] - t['av0'], tol_av))
            break
        if not (abs(scl[0] - t['s0']) <= tol_sc):
            out.violate('planted-scale', '%s: reported scale %.10g (off by %.3g, bound %.3g)' % (what, scl[0], scl[0] - t['s0'], tol_sc))
            break
    if not out.violations:
        # write_parameters: default selector ('N', 1) -> per source a header line and one row
        try:
            for ti, t in enumerate(truth_info):
                hd = txt[2 * ti].split()
                row = txt[2 * ti + 1].split()
                want = W.names[t['m']]
                out.compared('parameter-row')
                out.probe('params_row_checked')
                ok = hd[0] == t['name'] and row[1] == want and len(row) == 5 + len(W.par_names)
                for ci, c in enumerate(W.par_names):
                    x = float(W.pars[c][t['m']])
                    ok = ok and _c9._close(row[5 + ci], x)
                if not ok:
                    out.violate('parameter-row', 'source %s: write_parameters prints %s, the planted model %s has parameters %s' % (
                        t['name'], row, want, [float(W.pars[c][t['m']]) for c in W.par_names]))
                    break
        except Exception as e:
            out.violate('parameter-row', 'write_parameters output cannot be parsed: %s: %s' % (type(e).__name__, e))
    if not out.violations and sc.get('object_route'):
        from ..author import prelude_spec
        rf = pipe.call(pipe.Fitter, names, ap, d, extinction_law=W.extinction(), av_range=list(sc['av_range']),
                       distance_range=(list(sc['drange']) * pipe.u.kpc).to(pipe.u.Unit(spec.get('d_unit', 'kpc'))))
        infos = []
        intr = None
        if rf[0] == 'ok' and sc.get('intruder'):
            Wi = World(prelude_spec(spec, random.Random(sc['theta_seed'] + 7)))
            di = Wi.write(sim.path('other_pkg'))
            if pipe.call(pipe.convolve_model_dir, di, Wi.filters())[0] == 'ok':
                ri = pipe.call(pipe.Fitter, names, ap, di, extinction_law=Wi.extinction(), av_range=list(sc['av_range']),
                               distance_range=(list(sc['drange']) * pipe.u.kpc).to(pipe.u.Unit(spec.get('d_unit', 'kpc'))), remove_resolved=Wi.apdep)
                if ri[0] == 'ok':
                    intr = ri[1]              # alive from now on
        if rf[0] == 'ok':
            for ln in lines:
                ri = pipe.call(rf[1].fit, pipe.Source.from_ascii(ln))
                if ri[0] != 'ok':
                    break
                infos.append(ri[1])
        if len(infos) != len(lines):
            out.violate('stage-failed', 'object interface could not fit the planted sources', key='object-route')
        else:
            out.probe('object_route')
            if intr is not None:
                pipe.call(intr.fit, pipe.Source.from_ascii(lines[0]))
                out.probe('intruder_fit')
                sim.fired('intruder_fit')
            r = pipe.call(write_parameters, infos, outp + '.obj.txt')
            if r[0] != 'ok':
                out.violate('stage-failed', 'write_parameters on result objects raised %s: %s' % (pipe.exc_name(r), r[1]), key='write_parameters-objects/%s' % pipe.exc_name(r))
            else:
                txt2 = env.real_open(outp + '.obj.txt').read().splitlines()[3:]
                try:
                    for ti, t in enumerate(truth_info):
                        hd = txt2[2 * ti].split()
                        row = txt2[2 * ti + 1].split()
                        want = W.names[t['m']]
                        out.compared('parameter-row-objects')
                        ok = hd[0] == t['name'] and row[1] == want and len(row) == 5 + len(W.par_names)
                        for ci, c in enumerate(W.par_names):
                            x = float(W.pars[c][t['m']])
                            ok = ok and _c9._close(row[5 + ci], x)
                        if not ok:
                            out.violate('parameter-row', 'source %s (results passed as objects%s): write_parameters prints %s, the planted model %s has parameters %s' % (
                                t['name'], ', another package fitted in between' if sc.get('intruder') else '', row, want, [float(W.pars[c][t['m']]) for c in W.par_names]), key='objects')
                            break
                except Exception as e:
                    out.violate('parameter-row', 'write_parameters output (objects) cannot be parsed: %s: %s' % (type(e).__name__, e), key='objects')
    out.trace = trace + [tuple((t['av_pick'], t['d_pick'], t['n_fit'], tuple(t['kinds'])) for t in truth_info), bool(sc.get('object_route')), bool(sc.get('intruder'))]


def lowerings(sc, viol=None):
    if sc.get('prelude'):
        yield dict(sc, prelude=None)
    if sc.get('intruder'):
        yield dict(sc, intruder=False)
    if sc['conv_crash'] is not None:
        yield dict(sc, conv_crash=None)
    if sc['fit_crash'] is not None:
        yield dict(sc, fit_crash=None)
    for i in range(len(sc['plants'])):
        if len(sc['plants']) > 1:
            yield dict(sc, plants=sc['plants'][:i] + sc['plants'][i + 1:])
    for i, p in enumerate(sc['plants']):
        if any(k != 'f1' for k in p['kind']):
            yield dict(sc, plants=sc['plants'][:i] + [dict(p, kind=['f1'] * len(p['kind']))] + sc['plants'][i + 1:])
        if p['av_pick'] != 'lo':
            yield dict(sc, plants=sc['plants'][:i] + [dict(p, av_pick='lo')] + sc['plants'][i + 1:])
    if sc['clock'].get('kind') != 'steady':
        yield dict(sc, clock={'kind': 'steady'})
    if sc['stream'] != 'path':
        yield dict(sc, stream='path')
    w = sc['world']
    for key, lo in (('n_models', 2), ('n_ap', 2), ('n_wav', 12), ('n_par', 1)):
        if w[key] > lo and not (key == 'n_ap' and not w['apdep']):
            w2 = dict(w, **{key: lo})
            w2['mixed'] = None
            if w2.get('asc_per_file') is not None:
                w2['asc_per_file'] = w2['asc_per_file'][:w2['n_models']]
            yield dict(sc, world=w2)
    for key, val in (('dtype', 'f8'), ('asc_per_file', None), ('gz', False), ('subdir', 0), ('asc', False)):
        if w.get(key) != val:
            yield dict(sc, world=dict(w, **{key: val}))
    for j, f in enumerate(w['filters']):
        if f.get('desc'):
            yield dict(sc, world=dict(w, filters=w['filters'][:j] + [dict(f, desc=False)] + w['filters'][j + 1:]))
        if f.get('zero_edges'):
            yield dict(sc, world=dict(w, filters=w['filters'][:j] + [dict(f, zero_edges=False)] + w['filters'][j + 1:]))
