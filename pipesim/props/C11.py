"""C11 - fits do not depend on labelling, ordering, units of brightness, or history.

History clause (simulation): one Fitter shared by two interactive users who interleave up to 6 fit calls on a pool of
sources (the same Source object may be passed repeatedly and by both), with failing calls in between; every result must
be bit-equal to what a fresh Fitter returns, sources and model store untouched, earlier results not disturbed.
Paired-world clauses (pure relations checked because the run owns both worlds): filter permutation, model permutation
inside the package, flux scaling.
"""
import random

import numpy as np

from .. import env, pipe
from ..author import World, gen_world, gen_source, make_source
from ..canon import canon_record, canon_source, describe_diff, digest
from ..ref import ref_k
from ..runner import Outcome

ID = 'C11'
LEVEL = 'exploration'
RULE = ('Seeded scenarios: a world (either format, aperture-dependent or not, memmap on/off), a pool of 1..4 sources, and a schedule of up to '
        '6 steps by two users on ONE Fitter: fit(pool[i]) (same Source object re-used), bad calls (a source with the wrong number of bands, '
        'which must raise). Reference: a fresh Fitter per source. Then paired worlds: P1 filters+photometry permuted, P2 models permuted '
        'inside the package, P3 fluxes and errors scaled by c over 8 decades (distance-independent packages, flags in {0,1,9}). '
        'Non-trivial = at least one history result compared; distinct = distinct (format, mode, memmap, schedule shape (who, which source, '
        'repeat?, bad?), paired worlds judged).')
ASSUMPTIONS = ['bit-equality is demanded only between executions of the same code path on identically constructed Fitters in one process',
               'paired-world numerics are compared by model name within 1e-9 (relative, floor 1e-9) and only for well-conditioned regressions '
               '(normal-matrix determinant > 1e-3 of the product of its diagonal); rankings may differ inside exact ties']
PROBES = ['same_source_object_twice', 'both_users_same_source', 'bad_call_between', 'memmap_fitter', 'apdep', 'p1_filters_permuted',
          'p2_models_permuted', 'p3_flux_scaled', 'ill_conditioned_skipped', 'earlier_results_rechecked', 'source_edited_in_place', 'refit_after_in_place_edit', 'mixed_named_and_wavelength_filters', 'bystander_fitter_alive', 'same_filter_twice_other_aperture', 'p4_models_relabelled', 'one_sed_on_another_grid', 'five_band_patterns_then_the_first_again']


def budgets(tier):
    if tier == 'quick':
        return {'runs': 1000, 'max_wall': 115, 'chunk': 5}
    return {'runs': 20000, 'max_wall': 1700, 'chunk': 8}


def generate(rng, tier, idx):
    w = gen_world(rng, n_models=(1, 8), n_wav=(6, 20), n_filters=(2, 6), n_ap=(2, 4), n_par=(1, 1), allow_gz=False, allow_subdir=False)
    w['ext_n'] = 40
    if w['format'] == 1 and w['n_models'] > 1 and rng.random() < 0.3:
        w['mixed'] = rng.randrange(w['n_models'])        # one SED on another wavelength grid (per-file packages only)
    nf = len(w['filters'])
    pool = [gen_source(rng, nf, 'src%d' % i, flags=(0, 1, 1, 1, 1, 2, 3, 4, 9), min_fit=min(2, nf)) for i in range(rng.randint(1, 4))]
    steps = []
    for _ in range(rng.randint(1, 6)):
        r = rng.random()
        if r < 0.2:
            steps.append({'user': rng.choice('AB'), 'op': 'bad', 'kind': rng.choice(['short', 'long'])})
        elif r < 0.4:
            # the user edits a Source object in place (through its arrays) between fits
            steps.append({'user': rng.choice('AB'), 'op': 'edit', 'src': rng.randrange(len(pool)), 'kind': rng.choice(['scale', 'flag', 'error', 'one_flux']),
                          'k': rng.randrange(nf), 'c': float('%.3g' % (10 ** rng.uniform(-1, 1))), 'flag': rng.choice([0, 1, 9])})
        else:
            steps.append({'user': rng.choice('AB'), 'op': 'fit', 'src': rng.randrange(len(pool))})
    if not any(s['op'] == 'fit' for s in steps):
        steps.append({'user': 'A', 'op': 'fit', 'src': 0})
    cycle = w['apdep'] and nf >= 3 and rng.random() < 0.12
    if cycle:
        # six fits of sources that each use ANOTHER sub-set of the bands, the first of them once more at the end
        # (anything the fitter remembers per pattern of used bands is exercised), with resolved models removed
        pats = [p_ for p_ in range(1, 2 ** nf) if bin(p_).count('1') >= 2]
        rng.shuffle(pats)
        pool = []
        for i_, p_ in enumerate(pats[:5]):
            s_ = gen_source(rng, nf, 'pat%d' % i_, flags=(1,), min_fit=1)
            s_['valid'] = [1 if (p_ >> j_) & 1 else 0 for j_ in range(nf)]
            s_.pop('arrays', None)
            pool.append(s_)
        steps = [{'user': rng.choice('AB'), 'op': 'fit', 'src': i_} for i_ in range(len(pool))] + [{'user': 'A', 'op': 'fit', 'src': rng.randrange(max(1, len(pool) - 4))}]
        if w.get('shell_model') is None:
            w['shell_model'] = rng.randrange(w['n_models'])
    return {'world': w, 'pool': pool, 'steps': steps, 'memmap': rng.random() < 0.5, 'remove_resolved': w['apdep'] and (cycle or rng.random() < 0.3),
            'av_range': [0.0, round(rng.uniform(2, 30), 2)], 'drange': [1.0, rng.choice([1.0, 1.5, 2.5])],
            'theta_seed': rng.randrange(1 << 30), 'listing_seed': rng.randrange(1 << 30),
            'p1_seed': rng.randrange(1 << 30) if rng.random() < 0.6 else None,
            'p2_seed': rng.randrange(1 << 30) if rng.random() < 0.5 else None,
            'p4_seed': rng.randrange(1 << 30) if rng.random() < 0.5 else None,
            'p3_c': float('%.4g' % (10 ** rng.uniform(-4, 4))) if rng.random() < 0.6 else None,
            # cube packages: some entries of the filter list are monochromatic wavelengths (Quantities) instead of names
            'mono': [rng.random() < 0.4 for _ in range(nf)] if w['format'] == 2 and rng.random() < 0.5 else None,
            'mono_seed': rng.randrange(1 << 30), 'mono_unit': rng.choice(['micron', 'micron', 'Angstrom', 'mm']),
            # other Fitter objects alive in the same process while the shared one is used (another user's fitter on another
            # package, or on the same package with the filters in another order), created before or after the shared one
            # multi-aperture photometry: the same filter listed twice with different apertures (aperture-dependent packages)
            'dup_filter': ({'j': rng.randrange(nf), 'factor': rng.choice([1.5, 2.0, 4.0])} if w['apdep'] and rng.random() < 0.35 else None),
            'bystanders': [{'kind': rng.choice(['other_pkg', 'perm_filters']), 'when': rng.choice(['before', 'after']),
                            'remove_resolved': rng.random() < 0.5, 'seed': rng.randrange(1 << 30)} for _ in range(rng.choice([0, 0, 1, 2]))]}


def execute(sc):
    out = Outcome()
    sim = env.Sim('c11', listing_seed=sc['listing_seed'])
    try:
        with sim:
            _execute(dict(sc), sim, out)
    finally:
        out.absorb_sim(sim)
        sim.cleanup()
    return out


def _apply_edit(src, st):
    """the user edits a Source IN PLACE, through its arrays"""
    k = st['k'] % len(src.valid)
    v = int(src.valid[k])
    if src.flux.dtype.kind in 'iu' or src.error.dtype.kind in 'iu':
        # integer-held photometry cannot be rescaled in place: the user assigns float arrays instead
        src.flux = src.flux.astype(float)
        src.error = src.error.astype(float)
    if st['kind'] == 'scale':
        src.flux[:] *= st['c']
        src.error[:] *= st['c']
    elif st['kind'] == 'flag':
        if v in (0, 1, 9):
            src.valid[k] = st['flag']
    elif st['kind'] == 'error':
        if v in (1, 9):
            src.error[k] *= st['c']
    else:
        if v in (0, 1, 9):
            src.flux[k] *= st['c']


def _as_dict(src, template):
    return dict(template, valid=[int(x) for x in src.valid], flux=[float(x) for x in src.flux], error=[float(x) for x in src.error])


def _arrays_only(info):
    """canonical per-fit arrays of a result, without its source (which is the caller's own, editable object)"""
    import pickle
    from ..canon import canon_meta
    return pickle.loads(canon_record(info))[1:] + (canon_meta(info.meta),)


def _by_name(info):
    f = lambda x: np.asarray(getattr(x, 'value', x), float)
    return {str(n).strip(): (float(c), float(a), float(s)) for n, c, a, s in zip(info.model_name, f(info.chi2), f(info.av), f(info.sc))}, [str(n).strip() for n in info.model_name]


def _close(a, b):
    if np.isnan(a) or np.isnan(b):
        return np.isnan(a) and np.isnan(b)
    if np.isinf(a) or np.isinf(b):
        return a == b
    return abs(a - b) <= 1e-9 * max(abs(a), abs(b)) + 1e-9


def _well_conditioned(W, s, apdep, centers=None):
    valid = np.array(s['valid'])
    fl, er = np.array(s['flux'], float), np.array(s['error'], float)
    kj = ref_k(W.ext_wav, W.ext_chi, centers if centers is not None else [f['center'] for f in W.fspec])
    with np.errstate(all='ignore'):
        w = np.where(valid == 1, (np.log(10) * fl / er) ** 2, np.where(valid == 4, 1.0 / er ** 2, 0.0))
    if apdep:
        return bool(np.sum(w * kj * kj) > 0 and np.any((w > 0) & (np.abs(kj) > 1e-4)))
    m11, m22, m12 = np.sum(w * kj * kj), np.sum(w * 4.0), np.sum(w * kj * -2.0)
    return bool(np.sum(w > 0) >= 2 and m11 * m22 - m12 * m12 > 1e-3 * m11 * m22)


def _execute(sc, sim, out):
    spec = sc['world']
    W = World(spec)
    rng = random.Random(sc['theta_seed'])
    sc['theta'] = pipe.theta_for(W, rng, len(W.fspec), dmin=sc['drange'][0])
    d = W.write(sim.path('pkg'))
    r = pipe.call(pipe.convolve_model_dir, d, W.filters())
    if r[0] != 'ok':
        out.discarded = 'setup-convolve:' + pipe.exc_name(r)
        return
    names, ap = pipe.filter_args(W, sc)
    if sc.get('mono') and spec['format'] == 2 and any(sc['mono']):
        from astropy import units as u
        mr = random.Random(sc['mono_seed'])
        picks = mr.sample(range(W.n_wav), min(W.n_wav, len(names)))
        names = [((float(W.wav[picks[j % len(picks)]]) * u.micron).to(u.Unit(sc.get('mono_unit', 'micron'))) if m else nm)
                 for j, (nm, m) in enumerate(zip(names, sc['mono']))]
        out.probe('mixed_named_and_wavelength_filters')
    if spec.get('mixed') is not None and spec['format'] == 1:
        out.probe('one_sed_on_another_grid')
    if len(sc['pool']) >= 5 and sc['pool'][0]['name'] == 'pat0':
        out.probe('five_band_patterns_then_the_first_again')
    centers = [f['center'] for f in W.fspec]
    for j_, nm_ in enumerate(names):
        if not isinstance(nm_, str):
            centers[j_] = float(nm_.to(pipe.u.micron).value)
    if sc.get('dup_filter') and W.apdep and all(isinstance(x, str) for x in names):
        dj = sc['dup_filter']['j'] % len(names)
        names = list(names) + [names[dj]]
        ap = np.concatenate([ap.value, [ap.value[dj] * sc['dup_filter']['factor']]]) * ap.unit
        centers = centers + [centers[dj]]
        sc['pool'] = [dict(s0, valid=list(s0['valid']) + [1], flux=list(s0['flux']) + [float('%.6e' % (1.3 * abs(s0['flux'][dj]) + 1.0))],
                           error=list(s0['error']) + [float('%.6e' % (0.1 * (1.3 * abs(s0['flux'][dj]) + 1.0)))]) for s0 in sc['pool']]
        out.probe('same_filter_twice_other_aperture')
    n_bands = len(names)
    kw = pipe.fitter_kwargs(W, sc)

    def new_fitter(dd=d, nm=names, aa=ap):
        return pipe.call(pipe.Fitter, nm, aa, dd, use_memmap=sc['memmap'], remove_resolved=bool(sc.get('remove_resolved')), **pipe.fitter_kwargs(W, sc))
    # ---- phase 0 (pristine): what a fresh Fitter returns for every content a Source will have during the history.
    # The evolution of the contents is replayed on private copies with the same numpy operations, the reference fitter is
    # dropped before the shared fitter and the bystanders exist, so it can neither mask nor suffer from state they share.
    import gc
    evo = [make_source(s0) for s0 in sc['pool']]
    evo_ver = [0] * len(evo)
    needed = {}
    for st in sc['steps']:
        if st['op'] == 'edit':
            _apply_edit(evo[st['src']], st)
            evo_ver[st['src']] += 1
        elif st['op'] == 'fit':
            needed[(st['src'], evo_ver[st['src']])] = _as_dict(evo[st['src']], sc['pool'][st['src']])
    for i in set(k[0] for k in needed):
        needed[(i, evo_ver[i])] = _as_dict(evo[i], sc['pool'][i])          # final content, for the paired worlds
    rf0 = new_fitter()
    if rf0[0] != 'ok':
        out.discarded = 'setup-fitter:' + pipe.exc_name(rf0)
        return
    pre = {}
    for key, content in sorted(needed.items()):
        # (plain float lists: how the caller holds the numbers - tuples, big-endian, strided or integer arrays - must not matter)
        rr = pipe.call(rf0[1].fit, make_source({k_: v_ for k_, v_ in content.items() if k_ != 'arrays'}))
        if rr[0] != 'ok':
            out.discarded = 'setup-reference-fit:' + pipe.exc_name(rr)
            return
        pre[key] = (canon_record(rr[1]), rr[1])
    del rf0
    gc.collect()
    # ---- phase 1: bystanders and the shared fitter
    alive = []

    def make_bystander(b):
        if b['kind'] == 'other_pkg':
            from ..author import prelude_spec
            Wb = World(prelude_spec(spec, random.Random(b['seed'])))
            db = Wb.write(sim.path('bystander_pkg_%d' % len(alive)))
            if pipe.call(pipe.convolve_model_dir, db, Wb.filters())[0] != 'ok':
                return
            nmb, apb = [f['name'] for f in Wb.fspec], ap
            rb = pipe.call(pipe.Fitter, nmb, apb, db, use_memmap=sc['memmap'], remove_resolved=bool(b['remove_resolved'] and Wb.apdep),
                           extinction_law=Wb.extinction(), av_range=list(sc['av_range']), distance_range=list(sc['drange']) * pipe.u.kpc)
        else:
            perm = list(range(len(names)))
            random.Random(b['seed']).shuffle(perm)
            rb = pipe.call(pipe.Fitter, [names[j] for j in perm], ap[perm], d, use_memmap=sc['memmap'],
                           remove_resolved=bool(b['remove_resolved'] and W.apdep), **pipe.fitter_kwargs(W, sc))
        if rb[0] == 'ok':
            alive.append(rb[1])
            out.probe('bystander_fitter_alive')
            sim.fired('bystander_fitter')
    for b in sc.get('bystanders', []):
        if b['when'] == 'before':
            make_bystander(b)
    r = new_fitter()
    if r[0] != 'ok':
        out.discarded = 'setup-fitter:' + pipe.exc_name(r)
        return
    shared = r[1]
    for b in sc.get('bystanders', []):
        if b['when'] == 'after':
            make_bystander(b)
    if sc['memmap'] and spec['format'] == 2:
        out.probe('memmap_fitter')
    if W.apdep:
        out.probe('apdep')
    pool = [make_source(s) for s in sc['pool']]
    cur = [dict(s, valid=list(s['valid']), flux=list(s['flux']), error=list(s['error'])) for s in sc['pool']]   # current content of each object
    version = [0] * len(pool)
    ref = {}
    refcache = {}

    def reference(i):
        # what a fresh Fitter returned (phase 0) for a fresh Source holding the object's CURRENT content
        return pre.get((i, version[i]))
    def _store_digest():
        ext = shared.models.extended
        return digest((np.asarray(shared.models.fluxes.value, float).tobytes(), np.asarray(ext).astype('u1').tobytes() if isinstance(ext, np.ndarray) else repr(ext)))
    store0 = _store_digest()
    seen = {}
    earlier = []
    trace = [spec['format'], W.apdep, sc['memmap']]
    shape = []
    for k, st in enumerate(sc['steps']):
        if st['op'] == 'bad':
            nf = n_bands
            n = nf - 1 if (st['kind'] == 'short' and nf > 1) else nf + 1
            bad = make_source({'name': 'bad', 'x': 0.0, 'y': 0.0, 'valid': [1] * n, 'flux': [1.0] * n, 'error': [0.1] * n})
            rb = pipe.call(shared.fit, bad)
            out.probe('bad_call_between')
            sim.fired('bad_call')
            shape.append((st['user'], 'bad', rb[0]))
            # whether such a call raises is not part of the property (numpy may broadcast a 1-band source);
            # it is a disturbance after which the fitter must still behave as a fresh one
            continue
        if st['op'] == 'edit':
            i = st['src']
            src = pool[i]
            _apply_edit(src, st)
            cur[i] = _as_dict(src, sc['pool'][i])
            version[i] += 1
            out.probe('source_edited_in_place')
            shape.append((st['user'], 'edit', st['kind']))
            continue
        i = st['src']
        src = pool[i]
        rfi = reference(i)
        if rfi is None:
            out.discarded = 'setup-reference-fit'
            return
        ref[i] = rfi
        if version[i] and any(x.get('src') == i and x['op'] == 'fit' for x in sc['steps'][:k]):
            out.probe('refit_after_in_place_edit')
        before = canon_source(src)
        rr = pipe.call(shared.fit, src)
        if rr[0] != 'ok':
            out.violate('fit-failed', 'step %d: fit raised %s: %s' % (k, pipe.exc_name(rr), rr[1]), key='%s@%s' % (pipe.exc_name(rr), pipe.where(rr[1]) if rr[0] == 'exc' else ''))
            break
        info = rr[1]
        got = canon_record(info)
        out.compared('history-vs-fresh')
        if i in seen:
            out.probe('same_source_object_twice')
            if seen[i] != st['user']:
                out.probe('both_users_same_source')
        seen[i] = st['user']
        shape.append((st['user'], i, 'repeat' if sum(1 for x in sc['steps'][:k] if x.get('src') == i and x['op'] == 'fit') else 'first'))
        if got != ref[i][0]:
            out.violate('history-dependence', 'step %d (user %s, source %s, after %s): result differs from a fresh fitter in %s' % (
                k, st['user'], sc['pool'][i]['name'], [(x['user'], x.get('src', 'bad')) for x in sc['steps'][:k]], describe_diff(got, ref[i][0])))
            break
        if canon_source(src) != before:
            out.violate('source-modified', 'step %d: the Source passed to fit() was modified' % k)
            break
        earlier.append((info, _arrays_only(info)))
    if not out.violations:
        out.compared('model-store')
        if _store_digest() != store0:
            out.violate('model-store-changed', 'the fitter\'s model fluxes or resolved-model flags changed during the history')
        for info, c in earlier:
            out.probe('earlier_results_rechecked')
            if _arrays_only(info) != c:
                out.violate('earlier-result-changed', 'a result returned earlier was changed by a later call on the same fitter')
                break
    trace.append(tuple(shape))
    paired = []
    if not out.violations:
        fit_idx = sorted(ref)
        for i in fit_idx:       # paired worlds are judged on the objects' final content
            rfi = reference(i)
            if rfi is None:
                out.discarded = 'setup-reference-fit'
                return
            ref[i] = rfi
        # ---- P1: filters permuted, photometry permuted alike
        if sc['p1_seed'] is not None and n_bands > 1:
            perm = list(range(n_bands))
            random.Random(sc['p1_seed']).shuffle(perm)
            nm2 = [names[j] for j in perm]
            ap2 = ap[perm]
            rf = new_fitter(nm=nm2, aa=ap2)
            if rf[0] != 'ok':
                out.violate('fit-failed', 'Fitter with permuted filters raised %s: %s' % (pipe.exc_name(rf), rf[1]), key='p1/%s' % pipe.exc_name(rf))
            else:
                for i in fit_idx:
                    s = cur[i]
                    if not _well_conditioned(W, s, W.apdep, centers):
                        out.probe('ill_conditioned_skipped')
                        continue
                    s2 = dict(s, valid=[s['valid'][j] for j in perm], flux=[s['flux'][j] for j in perm], error=[s['error'][j] for j in perm])
                    rr = pipe.call(rf[1].fit, make_source(s2))
                    if rr[0] != 'ok':
                        out.violate('fit-failed', 'fit with permuted filters raised %s' % pipe.exc_name(rr), key='p1/%s' % pipe.exc_name(rr))
                        break
                    out.probe('p1_filters_permuted')
                    if not _compare(out, 'filter-permutation', ref[i][1], rr[1], 0.0, 'filters permuted %s' % perm):
                        break
                paired.append('P1')
        # ---- P2: models permuted inside the package
        if not out.violations and sc['p2_seed'] is not None and W.n_models > 1:
            perm = np.random.default_rng(sc['p2_seed']).permutation(W.n_models)
            W2 = World(spec)
            W2.names = [W.names[i] for i in perm]
            W2.sed = [W.sed[i] for i in perm]
            W2.val = W.val[perm]
            W2.unc = W.unc[perm]
            W2.pars = {k: v[perm] for k, v in W.pars.items()}
            W2.perm = np.random.default_rng(sc['p2_seed'] + 1).permutation(W.n_models)
            d2 = W2.write(sim.path('pkg2'))
            r2 = pipe.call(pipe.convolve_model_dir, d2, W2.filters())
            rf = new_fitter(dd=d2) if r2[0] == 'ok' else r2
            if rf[0] != 'ok':
                out.violate('fit-failed', 'package with permuted models: %s: %s' % (pipe.exc_name(rf), rf[1]), key='p2/%s' % pipe.exc_name(rf))
            else:
                for i in fit_idx:
                    rr = pipe.call(rf[1].fit, make_source(cur[i]))
                    if rr[0] != 'ok':
                        out.violate('fit-failed', 'fit on the permuted package raised %s' % pipe.exc_name(rr), key='p2/%s' % pipe.exc_name(rr))
                        break
                    out.probe('p2_models_permuted')
                    if not _compare(out, 'model-permutation', ref[i][1], rr[1], 0.0, 'models permuted'):
                        break
                paired.append('P2')
        # ---- P4: the models carry other labels (the names are dealt out to the same SEDs in another way), so that
        # the order of the files / rows changes with them; results are compared SED by SED
        if not out.violations and sc.get('p4_seed') is not None and W.n_models > 1:
            perm = np.random.default_rng(sc['p4_seed']).permutation(W.n_models)
            W4 = World(spec)
            W4.names = [W.names[int(perm[i])] for i in range(W.n_models)]
            W4.perm = np.random.default_rng(sc['p4_seed'] + 1).permutation(W.n_models)
            d4 = W4.write(sim.path('pkg4'))
            r4 = pipe.call(pipe.convolve_model_dir, d4, W4.filters())
            rf = new_fitter(dd=d4) if r4[0] == 'ok' else r4
            if rf[0] != 'ok':
                out.violate('fit-failed', 'package with relabelled models: %s: %s' % (pipe.exc_name(rf), rf[1]), key='p4/%s' % pipe.exc_name(rf))
            else:
                back = {W4.names[i]: W.names[i] for i in range(W.n_models)}
                for i in fit_idx:
                    rr = pipe.call(rf[1].fit, make_source(cur[i]))
                    if rr[0] != 'ok':
                        out.violate('fit-failed', 'fit on the relabelled package raised %s' % pipe.exc_name(rr), key='p4/%s' % pipe.exc_name(rr))
                        break
                    out.probe('p4_models_relabelled')
                    if not _compare(out, 'model-relabelling', ref[i][1], rr[1], 0.0, 'models relabelled', rename=back):
                        break
                paired.append('P4')
        # ---- P3: flux scaling (distance-independent packages, flags in {0,1,9})
        if not out.violations and sc['p3_c'] is not None and not W.apdep:
            c = sc['p3_c']
            rf = new_fitter()
            for i in fit_idx:
                s = cur[i]
                if any(v not in (0, 1, 9) for v in s['valid']) or not _well_conditioned(W, s, False, centers):
                    out.probe('ill_conditioned_skipped')
                    continue
                s2 = dict(s, flux=[f * c for f in s['flux']], error=[e * c for e in s['error']])
                rr = pipe.call(rf[1].fit, make_source(s2))
                if rr[0] != 'ok':
                    out.violate('fit-failed', 'fit of the scaled source raised %s' % pipe.exc_name(rr), key='p3/%s' % pipe.exc_name(rr))
                    break
                out.probe('p3_flux_scaled')
                if not _compare(out, 'flux-scaling', ref[i][1], rr[1], -0.5 * np.log10(c), 'fluxes and errors x %g' % c):
                    break
            paired.append('P3')
    if not out.violations:
        for info, c in earlier:
            if _arrays_only(info) != c:
                out.violate('earlier-result-changed', 'a result returned earlier (arrays or metadata) was changed by later fits, possibly by another fitter on another package')
                break
    trace.append(tuple(paired))
    out.trace = trace


def _compare(out, clause, a, b, dsc, what, rename=None):
    A, ra = _by_name(a)
    B, rb = _by_name(b)
    if rename is not None:
        B = {rename.get(k_, k_): v_ for k_, v_ in B.items()}
        rb = [rename.get(k_, k_) for k_ in rb]
    out.compared(clause)
    if sorted(A) != sorted(B):
        out.violate(clause, '%s: model sets differ' % what)
        return False
    for nm in A:
        ca, aa, sa = A[nm]
        cb, ab, sb = B[nm]
        if not (_close(ca, cb) and _close(aa, ab) and _close(sa + dsc, sb)):
            out.violate(clause, '%s: model %s gives chi2/A_V/scale %r, was %r (expected scale shift %.6g)' % (what, nm, B[nm], A[nm], dsc))
            return False
    for pos, (x, y) in enumerate(zip(ra, rb)):
        if x != y and not _close(A[x][0], A[y][0]):
            out.violate(clause, '%s: rank %d is %s, was %s (chi2 %.10g vs %.10g)' % (what, pos + 1, y, x, A[y][0], A[x][0]))
            return False
    return True


def lowerings(sc, viol=None):
    for key in ('p1_seed', 'p2_seed', 'p3_c', 'p4_seed'):
        if sc.get(key) is not None:
            yield dict(sc, **{key: None})
    if sc.get('dup_filter'):
        yield dict(sc, dup_filter=None)
    if sc.get('bystanders'):
        yield dict(sc, bystanders=[])
    if sc.get('mono'):
        yield dict(sc, mono=None)
    if sc['memmap']:
        yield dict(sc, memmap=False)
    w = sc['world']
    for key, lo in (('n_models', 1), ('n_models', 2), ('n_wav', 6)):
        if w[key] > lo:
            w2 = dict(w, **{key: lo})
            w2['mixed'] = None
            if w2.get('asc_per_file') is not None:
                w2['asc_per_file'] = w2['asc_per_file'][:w2['n_models']]
            yield dict(sc, world=w2)
    for key, val in (('dtype', 'f8'), ('asc_per_file', None), ('asc', False)):
        if w.get(key) != val:
            yield dict(sc, world=dict(w, **{key: val}))
