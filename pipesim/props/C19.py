"""C19 - a fit output file cut short never yields a wrong record.

Seeded writer histories x crash points: every byte offset of the file is a crash point (all of
them in `thorough`; boundaries +-3, all offsets of small files and a seeded sample in `quick`),
plus crashes / ENOSPC injected into the live fit() through the open seam, plus a concurrent
reader looking at the file from inside the writer's write events.
"""
import os
import random

from .. import env, pipe
from ..author import World, gen_world, gen_source, source_line
from ..canon import canon_record
from ..runner import Outcome

ID = 'C19'
LEVEL = 'fault_enumeration'
RULE = ('Histories are seeded (world, 1..4 sources, selector, stored fluxes yes/no, fit() or filter_output() as '
        'the writer); per history the crash points are byte offsets of the written file: all of them (thorough) or '
        'record/metadata boundaries +-3 plus a seeded sample (quick), plus live crash/ENOSPC faults through the open '
        'seam and observer reads from inside write events. A run is non-trivial when at least one truncated read was '
        'judged; distinct = distinct abstract traces (format, mode, #records, stored-fluxes, selector form, set of '
        'reader outcomes (exception class or prefix length), live-fault regions).')
ASSUMPTIONS = ['the records "that had been written" are what sedfitter\'s own reader returns for the complete file '
               '(agreement of that with the object interface is C10\'s subject)',
               'a crash leaves exactly the bytes whose write() call returned (SimFile is unbuffered); a write that is '
               'cut persists a prefix of its bytes',
               'package authoring and convolution are only a means to obtain realistic records here; a scenario whose '
               'setup stage fails is discarded and counted, not failed']
PROBES = ['reader_raised', 'exact_prefix_nonempty', 'exact_prefix_empty', 'crash_inside_metadata', 'crash_on_boundary',
          'live_crash', 'live_enospc', 'observer_reads', 'filter_output_streams', 'with_model_fluxes', 'synthetic_big_record', 'path_written_before', 'cut_in_place', 'consumer_ran_on_cut_file_first', 'consumer_ran_on_previous_cut', 'records_yielded_before_the_error', 'control_file_read_after_the_cuts']


def budgets(tier):
    if tier == 'quick':
        return {'runs': 700, 'max_wall': 100, 'chunk': 6}
    return {'runs': 3000, 'max_wall': 1500, 'chunk': 4}


SIZES = [0, 1, 2, 7, 64, 255, 256, 257, 999, 1000, 1001, 1023, 1024, 1025, 2048, 2500, 4095, 4096, 4097, 5000]


def _generate_synthetic(rng, tier):
    """Records built through the public FitInfo class and written by the real FitInfoFile.write: record sizes far
    beyond what a small simulated package gives (any size threshold in the writer must be crossed by some history)."""
    recs = []
    for _ in range(rng.randint(1, 4)):
        n = rng.choice(SIZES) if rng.random() < 0.7 else rng.randint(0, 6000)
        recs.append({'n': n, 'nw': rng.randint(1, 6), 'fluxes': rng.random() < 0.5, 'seed': rng.randrange(1 << 30)})
    if tier == 'thorough':
        off = {'mode': 'sample', 'n': 3000, 'seed': rng.randrange(1 << 30), 'all_below': 20000}
    else:
        off = {'mode': 'sample', 'n': 250, 'seed': rng.randrange(1 << 30), 'all_below': 1200}
    # earlier generations of the same path (a script that re-writes its output), and the cut applied to the path itself
    earlier = [[{'n': rng.choice([0, 1, 3, 40]), 'nw': rng.randint(1, 6), 'fluxes': rng.random() < 0.5, 'seed': rng.randrange(1 << 30)}
                for _ in range(rng.randint(1, 4))] for _ in range(rng.choice([0, 0, 1, 2]))]
    return {'family': 'synthetic', 'records': recs, 'offsets': off, 'clock': {'kind': 'steady'}, 'listing_seed': 0,
            'earlier': earlier, 'in_place': rng.random() < 0.6,
            'live': [{'kind': rng.choice(['crash', 'enospc']), 'frac': round(rng.random(), 4)} for _ in range(rng.choice([0, 1, 2]))]}


def generate(rng, tier, idx):
    if rng.random() < 0.3:
        return _generate_synthetic(rng, tier)
    w = gen_world(rng, n_models=(1, 5), n_wav=(5, 12), n_filters=(2, 3), n_ap=(2, 3), allow_gz=False, allow_subdir=False)
    w['ext_n'] = rng.choice([3, 3, 8, 40])
    if rng.random() < 0.03:
        # a grid with more models than any plausible internal block size (cube format keeps this cheap)
        w.update(format=2, n_models=rng.choice([1100, 2100]), n_wav=6, asc_per_file=None, mixed=None, zero_band=None, gz=False, subdir=0)
        w['flux_unit'] = 'mJy' if w['flux_unit'] not in ('mJy', 'Jy', 'MJY', 'MJy', 'uJy') else w['flux_unit']
    nf = len(w['filters'])
    nsrc = rng.randint(1, 4)
    sc = {'world': w,
          'av_range': [0.0, round(rng.uniform(2, 30), 2)],
          'drange': [1.0, rng.choice([1.0, 1.5, 2.0])],
          'n_data_min': rng.randint(0, 1),
          'output_convolved': rng.random() < 0.5,
          'mode': 'fit' if rng.random() < 0.7 else 'filter_output',
          'stream': rng.choice(['path', 'reader']),
          'clock': pipe.gen_clock(rng),
          'listing_seed': rng.randrange(1 << 30),
          'theta_seed': rng.randrange(1 << 30),
          'sources': [gen_source(rng, nf, 's%d' % i, flags=(0, 1, 1, 1, 2, 3, 4, 9), min_fit=1) for i in range(nsrc)]}
    if sc['mode'] == 'filter_output':
        sc['sel'] = rng.choice([['A', 0], ['N', rng.randint(1, 6)], ['D', 3.5], ['F', 2.25]])
        sc['threshold'] = float('%.3g' % (10 ** rng.uniform(-1, 5)))
        sc['criterion'] = rng.choice(['chi', 'cpd'])
    else:
        sc['sel'] = pipe.gen_selector(rng, w['n_models'])
    if tier == 'thorough':
        sc['offsets'] = {'mode': 'all'}
    else:
        sc['offsets'] = {'mode': 'sample', 'n': 300, 'seed': rng.randrange(1 << 30), 'all_below': 2600}
    live = []
    for _ in range(rng.choice([0, 1, 2, 3])):
        live.append({'kind': rng.choice(['crash', 'crash', 'enospc']),
                     'where': rng.choice(['frac', 'frac', 'boundary', 'meta']),
                     'frac': round(rng.random(), 4), 'delta': rng.randint(-2, 2), 'pick': rng.randrange(100)})
    sc['live'] = live
    sc['observe'] = rng.random() < 0.3
    sc['consumer_on_cut'] = rng.choice([None, None, None, 'wp', 'wpr', 'ep'])
    sc['consumer_after_read'] = rng.random() < 0.5
    sc['control_file'] = rng.random() < 0.4
    if tier == 'thorough' and (sc['consumer_on_cut'] or w['n_models'] > 100):
        # every byte offset is enumerated only where one read per offset is all there is to do; with a post-processing
        # call per offset, or records of a thousand fits, a dense seeded sample plus all boundaries keeps a run bounded
        sc['offsets'] = {'mode': 'sample', 'n': 1500, 'seed': rng.randrange(1 << 30), 'all_below': 4000}
    return sc


def _read_partial(path):
    """Read a fit file the way a consumer's loop does: whatever the reader YIELDS before it fails has been used by then,
    so it is kept and judged too.  Returns ('ok', records) or ('exc', exception, records yielded before it)."""
    recs = []
    try:
        f = pipe.FitInfoFile(path, 'r')
    except BaseException as e:      # noqa
        if isinstance(e, (KeyboardInterrupt, env.SimCrash)) or type(e).__name__ == '_OpTimeout':
            raise
        return ('exc', e, recs)
    try:
        for r in f:
            recs.append(r)
    except BaseException as e:      # noqa
        if isinstance(e, (KeyboardInterrupt, env.SimCrash)) or type(e).__name__ == '_OpTimeout':
            raise
        return ('exc', e, recs)
    finally:
        try:
            f.close()
        except Exception:
            pass
    return ('ok', recs)


def _judge(out, res, G, n_complete, what, probes=True):
    """The C19 oracle on the outcome of one read of a truncated/partial file."""
    out.compared('truncated-read')
    failed = None
    if res[0] != 'ok':
        if res[0] != 'exc':
            raise env.HarnessError('reader ended with %s' % (res,))
        if probes:
            out.probe('reader_raised')
        failed = 'E:' + type(res[1]).__name__
        if len(res) < 3 or not res[2]:
            return failed
        recs = res[2]                 # yielded before the error: must be an exact prefix all the same
        if probes:
            out.probe('records_yielded_before_the_error')
    else:
        recs = res[1]
    j = len(recs)
    if j > len(G):
        out.violate('invented-record', '%s: reader returned %d records, only %d were written' % (what, j, len(G)))
        return 'bad'
    for i, r in enumerate(recs):
        try:
            c = canon_record(r, meta=True)
        except Exception as e:  # a half-built object
            out.violate('wrong-record', '%s: record %d cannot be examined (%s: %s)' % (what, i, type(e).__name__, e))
            return 'bad'
        if c != G[i]:
            from ..canon import describe_diff
            out.violate('wrong-record', '%s: record %d differs from the written one in %s' % (what, i, describe_diff(c, G[i])))
            return 'bad'
    if n_complete is not None and j > n_complete:
        out.violate('invented-record', '%s: reader returned %d records but only %d were completely written' % (what, j, n_complete))
        return 'bad'
    if failed:
        return failed
    if probes:
        out.probe('exact_prefix_nonempty' if j else 'exact_prefix_empty')
    return 'P%d' % j


def _offsets(spec, L, bounds):
    if spec['mode'] == 'all' or L <= spec.get('all_below', 0):
        return list(range(L))
    if spec['mode'] == 'list':
        return [k for k in spec['list'] if 0 <= k < L]
    s = set()
    if len(bounds) > 64:
        # a writer that issues very many small writes: keep the first / last boundaries and a seeded sample of the rest
        rb = random.Random(spec.get('seed', 0) + 1)
        bounds = sorted(set(list(bounds[:8]) + list(bounds[-8:]) + rb.sample(list(bounds), 48)))
    for b in bounds:
        for d in range(-3, 4):
            if 0 <= b + d < L:
                s.add(b + d)
    r = random.Random(spec['seed'])
    for _ in range(spec['n']):
        s.add(r.randrange(L))
    return sorted(s)


def execute(sc):
    out = Outcome()
    sim = env.Sim('c19', clock=sc['clock'], listing_seed=sc['listing_seed'])
    try:
        with sim:
            _execute(sc, sim, out)
    finally:
        out.absorb_sim(sim)
        sim.cleanup()
    return out


def _run_writer(sc, sim, W, d, lines, outp):
    """The writer under test: fit() (and filter_output()). Returns call result and the list of files."""
    names, ap = pipe.filter_args(W, sc)
    data = sim.path('data.txt')
    with env.real_open(data, 'w') as f:
        f.write(''.join(lines))
    src = data if sc['stream'] == 'path' else env.SimReader(sim, ''.join(lines))
    if os.path.exists(outp):
        os.remove(outp)
    res = pipe.call(pipe.fit, src, names, ap, d, outp, n_data_min=sc['n_data_min'], output_format=pipe.sel_arg(sc['sel']),
                    output_convolved=sc['output_convolved'], **pipe.fitter_kwargs(W, sc))
    files = [outp]
    if res[0] == 'ok' and sc['mode'] == 'filter_output':
        from sedfitter import filter_output
        g, b = outp + '_g', outp + '_b'
        for p in (g, b):
            if os.path.exists(p):
                os.remove(p)
        res = pipe.call(filter_output, outp, output_good=g, output_bad=b, **{sc['criterion']: sc['threshold']})
        files = [g, b]
    return res, files


def _synthetic_infos(sc, prefix='syn'):
    import numpy as np
    from astropy import units as u
    from sedfitter.extinction import Extinction
    from sedfitter.source import Source
    e = Extinction()
    e.wav = [0.1, 1., 10.] * u.micron
    e.chi = [3., 2., 1.] * u.cm ** 2 / u.g
    infos = []
    meta = None
    for k, r in enumerate(sc['records']):
        g = np.random.default_rng(r['seed'])
        n, nw = r['n'], r['nw']
        s = Source()
        s.name = '%s%d' % (prefix, k)
        s.x = float(k)
        s.y = -float(k)
        s.valid = [1] * nw
        s.flux = list(g.uniform(1, 10, nw))
        s.error = list(g.uniform(.1, 1, nw))
        info = pipe.FitInfo(s)
        info.chi2 = np.sort(g.uniform(0, 100, n))
        info.av = g.uniform(0, 10, n)
        info.sc = g.uniform(-1, 1, n)
        info.model_id = g.permutation(n)
        info.model_name = np.array(['m%05d' % i for i in info.model_id])
        info.model_fluxes = g.uniform(0, 3, (n, nw)) if r['fluxes'] else None
        if meta is None:
            meta = info.meta
            meta.model_dir = 'synthetic'
            meta.filters = [{'name': 'F%d' % j, 'aperture_arcsec': 3.0, 'wav': (1.0 + j) * u.micron} for j in range(nw)]
            meta.extinction_law = e
        info.meta = meta
        infos.append(info)
    return infos


def _execute_synthetic(sc, sim, out):
    infos = _synthetic_infos(sc)
    outp = sim.path('syn.fitinfo')
    for gen in sc.get('earlier') or []:
        # the path has a past: other records were written to it, and read, by the same process
        rg_ = pipe.call(pipe.write_fit_file, outp, _synthetic_infos(dict(sc, records=gen), prefix='old'))
        if rg_[0] == 'ok':
            pipe.call(pipe.read_fit_sed, outp)
            out.probe('path_written_before')
            sim.fired('earlier_generation')
    sim.reset_ordinals()
    n0 = len(sim.events)
    r = pipe.call(pipe.write_fit_file, outp, infos)
    if r[0] != 'ok':
        out.violate('writer-failed', 'FitInfoFile.write raised %s: %s' % (pipe.exc_name(r), r[1]), key='write/%s' % pipe.exc_name(r))
        return
    sizes = [ev[3] for ev in sim.events[n0:] if ev[0] == 'write']
    cum = []
    t = 0
    for x in sizes:
        t += x
        cum.append(t)
    B = env.real_open(outp, 'rb').read()
    g = pipe.call(pipe.read_fit_sed, outp)
    if g[0] != 'ok':
        out.violate('full-read-failed', 'the complete file cannot be read back: %s' % pipe.exc_name(g))
        return
    G = [canon_record(x, meta=True) for x in g[1]]
    W = [canon_record(x, meta=True) for x in infos]
    out.compared('full-file')
    if G != W:
        out.violate('wrong-record', 'the complete file does not read back the %d records that were written' % len(W))
        return
    out.probe('synthetic_big_record', sum(1 for r_ in sc['records'] if r_['n'] >= 1000))
    tp = outp if sc.get('in_place') else sim.path('trunc')       # the file itself is cut short, or a copy of it
    if sc.get('in_place'):
        out.probe('cut_in_place')
    outcomes = set()
    offs = _offsets(sc['offsets'], len(B), cum)
    out.probe('offsets_judged', len(offs))
    for k in offs:
        with env.real_open(tp, 'wb') as f:
            f.write(B[:k])
        rr = _read_partial(tp)
        outcomes.add(_judge(out, rr, G, None, 'file syn.fitinfo cut at byte %d of %d%s' % (k, len(B), ' (in place)' if sc.get('in_place') else '')))
        if out.violations:
            break
    for lf in sc.get('live', []):
        if out.violations:
            break
        at = min(len(B) - 1, int(lf['frac'] * len(B)))
        sim.arm('byte', lf['kind'], at, target=sim.rel(outp))
        os.remove(outp)
        r = pipe.call(pipe.write_fit_file, outp, infos)
        sim.faults = []
        if r[0] == 'ok':
            out.probe('open_seam_bypassed')
            break
        if r[0] not in ('crash', 'exc'):
            raise env.HarnessError('live fault did not fire')
        out.probe('live_' + lf['kind'])
        rr = _read_partial(outp)
        outcomes.add(_judge(out, rr, G, None, 'live %s at byte %d' % (lf['kind'], at)))
    out.trace = ['synthetic', [min(r_['n'], 1000) // 250 for r_ in sc['records']], [r_['fluxes'] for r_ in sc['records']], sorted(outcomes)]


def _execute(sc, sim, out):
    if sc.get('family') == 'synthetic':
        return _execute_synthetic(sc, sim, out)
    W = World(sc['world'])
    rng = random.Random(sc['theta_seed'])
    sc = dict(sc, theta=pipe.theta_for(W, rng, len(W.fspec), dmin=sc['drange'][0]))
    d = W.write(sim.path('pkg'))
    r = pipe.call(pipe.convolve_model_dir, d, W.filters())
    if r[0] != 'ok':
        out.discarded = 'setup-convolve:' + pipe.exc_name(r)
        return
    lines = [source_line(s) + '\n' for s in sc['sources']]
    outp = sim.path('out.fitinfo')
    sim.reset_ordinals()
    n_ev0 = len(sim.events)
    res, files = _run_writer(sc, sim, W, d, lines, outp)
    if res[0] != 'ok':
        out.discarded = 'setup-writer:' + pipe.exc_name(res)
        return
    # a second, complete fit file of the same sources written the other way round (without / with stored fluxes): it is
    # read now and again after the cuts, and must keep reading back what was written
    control = None
    if sc.get('control_file'):
        cpath = sim.path('control.fitinfo')
        rc_, _f = _run_writer(dict(sc, mode='fit', output_convolved=not sc['output_convolved']), sim, W, d, lines, cpath)
        gc_ = pipe.call(pipe.read_fit_sed, cpath) if rc_[0] == 'ok' else rc_
        if gc_[0] == 'ok' and gc_[1]:
            control = (cpath, [canon_record(x, meta=True) for x in gc_[1]])
    # write log of the fault-free run: cumulative offsets after each write, per file
    wlog = {}
    for ev in sim.events[n_ev0:]:
        if ev[0] == 'write':
            wlog.setdefault(ev[2], []).append(ev[3])
    outcomes = set()
    regions = set()
    n_total_records = 0
    full = {}
    for p in files:
        B = env.real_open(p, 'rb').read()
        if len(B) == 0:
            continue
        g = pipe.call(pipe.read_fit_sed, p)
        if g[0] != 'ok':
            out.discarded = 'full-read-failed:' + pipe.exc_name(g)
            return
        G = [canon_record(x, meta=True) for x in g[1]]
        sizes = wlog.get(sim.token(p), [])
        cum = []
        t = 0
        for s in sizes:
            t += s
            cum.append(t)
        # the code writes 3 metadata pickles then one pickle per record; only rely on that when it adds up
        bounds = cum[3:] if (len(cum) == len(G) + 3 and cum and cum[-1] == len(B)) else None
        full[p] = (B, G, bounds, cum)
        n_total_records += len(G)
        if sc['output_convolved']:
            out.probe('with_model_fluxes')
        if sc['mode'] == 'filter_output':
            out.probe('filter_output_streams')
        tp = sim.path('trunc')
        offs = _offsets(sc['offsets'], len(B), cum)
        out.probe('offsets_judged', len(offs))
        if len(offs) == len(B):
            out.probe('files_fully_enumerated')
        for k in offs:
            with env.real_open(tp, 'wb') as f:
                f.write(B[:k])
            if sc.get('consumer_on_cut') and not sc.get('consumer_after_read'):
                # an analyst's script stumbles over the damaged file first (its outcome is not judged here)...
                pipe.run_consumer(sim, sc['consumer_on_cut'], tp, ('A', 0), 'cut', {})
                out.probe('consumer_ran_on_cut_file_first')
            rr = _read_partial(tp)
            if sc.get('consumer_on_cut') and sc.get('consumer_after_read'):
                # ... or after the read, so that whatever it leaves behind in the process meets the NEXT cut
                pipe.run_consumer(sim, sc['consumer_on_cut'], tp, ('A', 0), 'cut', {})
                out.probe('consumer_ran_on_previous_cut')
            ncomp = None if bounds is None else sum(1 for b in bounds if b <= k)
            oc = _judge(out, rr, G, ncomp, 'file %s cut at byte %d of %d' % (os.path.basename(p), k, len(B)))
            outcomes.add(oc)
            if cum and len(cum) >= 3 and k < cum[2]:
                out.probe('crash_inside_metadata')
            if k in cum:
                out.probe('crash_on_boundary')
            if out.violations:
                out.bad_offset = k
                break
        if control is not None and not out.violations:
            out.probe('control_file_read_after_the_cuts')
            rr = _read_partial(control[0])
            oc = _judge(out, rr, control[1], None, 'the complete control file read after the cuts of %s' % os.path.basename(p), probes=False)
            if not out.violations and oc != 'P%d' % len(control[1]):
                out.violate('wrong-record', 'the complete control file no longer reads back its %d records after truncated files were read (%s)' % (len(control[1]), oc))
        if out.violations:
            break
    if not full:
        out.discarded = 'no-bytes-written'
        return
    # live faults: crash / ENOSPC inside the real fit() through the open seam
    if not out.violations and sc['mode'] == 'fit':
        B, G, bounds, cum = full[outp]
        for lf in sc['live']:
            if lf['where'] == 'frac' or not cum:
                at = min(len(B) - 1, int(lf['frac'] * len(B)))
            elif lf['where'] == 'meta':
                at = min(len(B) - 1, max(0, int(lf['frac'] * cum[min(2, len(cum) - 1)])))
            else:
                at = min(len(B) - 1, max(0, cum[lf['pick'] % len(cum)] + lf['delta']))
            sim.arm('byte', lf['kind'], at, target=sim.rel(outp))
            res, _ = _run_writer(dict(sc, mode='fit'), sim, W, d, lines, outp)
            sim.faults = []
            expect = 'crash' if lf['kind'] == 'crash' else 'exc'
            if res[0] == 'ok':
                out.probe('open_seam_bypassed')      # the code no longer opens its output through the seam: no live fault possible
                break
            if res[0] != expect:
                raise env.HarnessError('live fault %s at %d ended with %r' % (lf, at, res))
            left = env.real_open(outp, 'rb').read()
            if left != B[:at]:
                out.violate('nondeterministic-writer', 'live %s at byte %d left %d bytes that are not a prefix of the '
                            'fault-free file' % (lf['kind'], at, len(left)))
                break
            out.probe('live_' + lf['kind'])
            region = 'meta' if (cum and at < cum[min(2, len(cum) - 1)]) else 'rec'
            regions.add((lf['kind'], region))
            rr = _read_partial(outp)
            ncomp = None if bounds is None else sum(1 for b in bounds if b <= at)
            outcomes.add(_judge(out, rr, G, ncomp, 'live %s at byte %d' % (lf['kind'], at)))
            if out.violations:
                break
    # a concurrent reader looking at the file from inside the writer's seam events
    if not out.violations and sc['mode'] == 'fit' and sc.get('observe'):
        B, G, bounds, cum = full[outp]
        seen = []

        def observer():
            size = os.path.getsize(outp) if os.path.exists(outp) else 0
            rr = _read_partial(outp)
            ncomp = None if bounds is None else sum(1 for b in bounds if b <= size)
            seen.append(_judge(out, rr, G, ncomp, 'observer at %d durable bytes' % size))
            out.probe('observer_reads')
        sim.reset_ordinals()
        for e in (range(len(cum) + 2) if len(cum) <= 64 else list(range(8)) + list(range(8, len(cum) + 2, max(1, len(cum) // 48)))):
            sim.hooks[('write', e)] = observer
        if sc['stream'] == 'reader':
            for e in range(len(lines) + 2):
                sim.hooks[('readline', e)] = observer
        res, _ = _run_writer(dict(sc, mode='fit'), sim, W, d, lines, outp)
        sim.hooks = {}
        if res[0] != 'ok':
            raise env.HarnessError('observed writer ended with %r' % (res,))
        if not seen:
            out.probe('open_seam_bypassed')
        outcomes.update(seen)
        regions.add(('observe', len(seen)))
    w = sc['world']
    out.trace = [w['format'], w['apdep'], sc['mode'], n_total_records, sc['output_convolved'], sc['sel'][0],
                 sorted(outcomes), sorted(regions)]


def lowerings(sc, viol=None):
    if sc.get('family') == 'synthetic':
        import re
        if sc['offsets'].get('mode') != 'list' and viol:
            m = re.search(r'cut at byte (\d+)', viol['message'])
            if m:
                yield dict(sc, offsets={'mode': 'list', 'list': [int(m.group(1))]}, live=[])
        if sc.get('earlier'):
            yield dict(sc, earlier=[])
            if len(sc['earlier']) > 1:
                yield dict(sc, earlier=sc['earlier'][:1])
        if sc.get('in_place'):
            yield dict(sc, in_place=False)
        for i in range(len(sc['records'])):
            if len(sc['records']) > 1:
                yield dict(sc, records=sc['records'][:i] + sc['records'][i + 1:])
        for i, r in enumerate(sc['records']):
            for n in (0, 1, 2, 1000, 1001):
                if n < r['n']:
                    yield dict(sc, records=sc['records'][:i] + [dict(r, n=n)] + sc['records'][i + 1:])
            if r['fluxes']:
                yield dict(sc, records=sc['records'][:i] + [dict(r, fluxes=False)] + sc['records'][i + 1:])
        return
    if sc['offsets'].get('mode') != 'list' and viol:
        import re
        m = re.search(r'cut at byte (\d+)', viol['message'])
        if m:
            yield dict(sc, offsets={'mode': 'list', 'list': [int(m.group(1))]}, live=[], observe=False)
    if sc.get('control_file'):
        yield dict(sc, control_file=False)
    if sc.get('consumer_on_cut'):
        yield dict(sc, consumer_on_cut=None)
    if sc['live']:
        yield dict(sc, live=[])
        for i in range(len(sc['live'])):
            yield dict(sc, live=sc['live'][:i] + sc['live'][i + 1:])
    if sc.get('observe'):
        yield dict(sc, observe=False)
    for i in range(len(sc['sources'])):
        if len(sc['sources']) > 1:
            yield dict(sc, sources=sc['sources'][:i] + sc['sources'][i + 1:])
    if sc['mode'] == 'filter_output':
        yield dict(sc, mode='fit')
    if sc['output_convolved']:
        yield dict(sc, output_convolved=False)
    if sc['clock'].get('kind') != 'steady':
        yield dict(sc, clock={'kind': 'steady'})
    if sc['stream'] != 'path':
        yield dict(sc, stream='path')
    w = sc['world']
    for key, lo in (('n_models', 1), ('n_wav', 5)):
        if w[key] > lo:
            w2 = dict(w, **{key: lo})
            if w2.get('asc_per_file') is not None:
                w2['asc_per_file'] = w2['asc_per_file'][:w2['n_models']]
            w2['mixed'] = None
            yield dict(sc, world=w2)
    if w['ext_n'] != 3:
        yield dict(sc, world=dict(w, ext_n=3))
    if w['dtype'] != 'f8':
        yield dict(sc, world=dict(w, dtype='f8'))
