"""C16 - monochromatic convolution emits every in-range wavelength at any memory limit.

The memory limit is a tuning knob that changes the execution path (chunking) and must not change the result: for one
world the convolver is run with EVERY chunk size 1..n_wav and the default, for several wavelength windows, under a
permuted directory listing.  Cube clause: a wavelength given instead of a filter name selects the nearest slice.
"""
import glob
import hashlib
import os
import shutil

import numpy as np

from .. import env, pipe
from ..author import World, gen_world, read_conv, make_source
from ..runner import Outcome

ID = 'C16'
LEVEL = 'exploration'
RULE = ('Seeded per-file worlds (2..9 wavelengths, 1..3 apertures, 1..5 models, permuted parameter table, per-file spectral order, f4/f8, gz, '
        'sub-directories) x windows (default, ends between or on tabulated wavelengths, single-wavelength windows; windows holding no '
        'tabulated wavelength strictly inside are not generated) x EVERY chunk size 1..n_wav plus the default memory limit, each into a '
        'fresh convolved/ directory under a permuted listing. Cube part: a Fitter with wavelength "filters" at / between / outside the '
        'tabulated wavelengths, A_V range [0,0], memmap on/off, cube in either spectral order. Non-trivial = at least one convolver run '
        'judged; distinct = distinct (n_wav, n_ap, #models, window kinds, boundary outcomes, cube knobs).')
ASSUMPTIONS = ['a window end that coincides with a tabulated wavelength may go either way, but the same way for every chunk size',
               'an empty window (no wavelength strictly inside) is outside the quantifier and not generated',
               'requested wavelengths exactly half-way between two tabulated ones are not generated']
PROBES = ['window_end_on_node_included', 'window_end_on_node_excluded', 'single_wavelength_window', 'default_window', 'chunk_size_1',
          'chunk_smaller_than_window', 'multi_aperture', 'cube_slice_checked', 'cube_memmap', 'cube_request_between', 'cube_request_outside', 'prelude_epoch', 'rerun_over_leftovers', 'memory_limit_as_i32', 'memory_limit_as_f32', 'memory_limit_as_int', 'memory_limit_as_i64', 'memory_limit_as_f64', 'cube_named_band_among_wavelengths']


def budgets(tier):
    if tier == 'quick':
        return {'runs': 260, 'max_wall': 115, 'chunk': 2}
    return {'runs': 5000, 'max_wall': 1700, 'chunk': 3}


def generate(rng, tier, idx):
    w = gen_world(rng, fmt=1, n_models=(1, 5), n_wav=(2, 9), n_filters=(1, 1), n_ap=(2, 3))
    w['n_ap'] = rng.randint(1, 3)
    w['apdep'] = w['n_ap'] > 1
    w['has_ap'] = True if w['n_ap'] > 1 else rng.random() < 0.5
    W = World(w)
    sw = [float(x) for x in W.wav]
    n = len(sw)
    windows = [None]
    for _ in range(rng.randint(1, 3)):
        ends = []
        for _e in range(2):
            r = rng.random()
            if r < 0.25:
                ends.append(rng.choice(sw))
            elif r < 0.45:
                # not ON a tabulated wavelength, but closer to it than single precision can tell
                ends.append(rng.choice(sw) * (1.0 + rng.choice([-1, 1]) * rng.choice([2e-8, 4e-8, 1e-9])))
            elif r < 0.9 and n > 1:
                k = rng.randrange(n - 1)
                ends.append(float('%.6g' % (sw[k] + rng.uniform(0.2, 0.8) * (sw[k + 1] - sw[k]))))
            else:
                ends.append(rng.choice([sw[0] * 0.5, sw[-1] * 2.0]))
        lo, hi = sorted(ends)
        if lo < hi and any(lo < x < hi for x in sw):
            windows.append([lo, hi])
    k = rng.randrange(n)
    lo = sw[k] * 0.999 if (k == 0 or sw[k - 1] < sw[k] * 0.999) else None
    hi = sw[k] * 1.001 if (k == n - 1 or sw[k + 1] > sw[k] * 1.001) else None
    if lo and hi:
        windows.append([lo, hi, 'single'])
    sc = {'world': w, 'listing_seed': rng.randrange(1 << 30),
          # 'rerun': chunk sizes run a second time with overwrite=True WITHOUT clearing convolved/ (left-overs of the previous run)
          'steps': [{'window': x, 'chunks': 'all', 'rerun': [rng.randint(1, max(1, w['n_wav'])) for _ in range(rng.choice([0, 1, 2]))]} for x in windows]}
    # cube part
    cube = {'asc': rng.random() < 0.5, 'memmap': rng.random() < 0.5, 'requests': [], 'n_ap': rng.randint(1, 3)}
    for _ in range(rng.randint(2, 4)):
        r = rng.random()
        if r < 0.45:
            cube['requests'].append(['on', rng.randrange(n), 0.0])
        elif r < 0.85 and n > 1:
            cube['requests'].append(['between', rng.randrange(n - 1), rng.choice([rng.uniform(0.05, 0.45), rng.uniform(0.55, 0.95)])])
        else:
            cube['requests'].append(['outside', rng.choice([0, n - 1]), 0.0])
    cube['source_seed'] = rng.randrange(1 << 30)
    cube['wav_unit'] = rng.choice(['micron', 'micron', 'Angstrom', 'nm', 'mm', 'm'])
    # the filter list of the cube fit may also hold an ordinary named band, before, between or after the wavelengths
    cube['named_at'] = rng.randrange(len(cube['requests']) + 1) if rng.random() < 0.4 else None
    sc['cube'] = cube if rng.random() < 0.6 else None
    if rng.random() < 0.3:
        from ..author import prelude_spec
        sc['prelude'] = {'world': prelude_spec(w, rng), 'seed': rng.randrange(1 << 30), 'fmt': 1}
    return sc


def execute(sc):
    out = Outcome()
    sim = env.Sim('c16', listing_seed=sc['listing_seed'])
    try:
        with sim:
            _execute(dict(sc), sim, out)
    finally:
        out.absorb_sim(sim)
        sim.cleanup()
    return out


def _table_entries(t):
    from astropy import units as u
    wv = t['wav']
    wv = np.asarray(wv.to(u.micron).value if hasattr(wv, 'to') else wv, float)
    out = []
    for w_, fn in zip(wv, t['filter']):
        fn = (fn.decode() if isinstance(fn, bytes) else str(fn)).strip()
        if fn:
            out.append((float(w_), fn))
    return out


def _execute(sc, sim, out):
    from astropy import units as u
    spec = sc['world']
    W = World(spec)
    if sc.get('prelude'):
        sc['av_range'], sc['drange'] = [0., 1.], [1., 2.]
        pipe.run_prelude(sim, sc, out, stages=('mono',), d=sim.path('pkg'))
    d = W.write(sim.path('pkg'), fmt=1)
    sw = np.array(W.wav, float)
    n_wav = len(sw)
    order = [W.names[i] for i in W.perm]
    if W.n_ap > 1:
        out.probe('multi_aperture')
    trace = [n_wav, W.n_ap, W.n_models]
    for k_win, st in enumerate(sc['steps']):
        win = st['window']
        lo, hi = (None, None) if win is None else (win[0], win[1])
        if win is None:
            out.probe('default_window')
        elif len(win) > 2:
            out.probe('single_wavelength_window')
        strict = [x for x in sw if lo is None or (lo < x < hi)]
        incl = [x for x in sw if lo is None or (lo <= x <= hi)]
        chunks = (list(range(1, n_wav + 1)) + [None]) if st['chunks'] == 'all' else st['chunks']
        if st['chunks'] == 'all':
            # generous limits handed over as other number types (chunk size = all wavelengths at once)
            kinds = ['i32:2', 'i32:6', 'f32:1.5', 'int:3', 'i64:4', 'i32:3', 'f64:2.0']
            chunks = chunks + [kinds[(k_win + n_wav) % len(kinds)], kinds[(k_win + 2 * n_wav + 3) % len(kinds)]]
        chunks = [(c, False) for c in chunks] + [(c, True) for c in st.get('rerun', [])]
        digests = {}
        bnd = set()
        for chunk, over in chunks:
            kw = {}
            if over and os.path.isdir(os.path.join(d, 'convolved')):
                kw['overwrite'] = True          # left-overs of the previous run (same window) are still there
                out.probe('rerun_over_leftovers')
                sim.fired('rerun_over_leftovers')
            else:
                shutil.rmtree(os.path.join(d, 'convolved'), ignore_errors=True)
            if isinstance(chunk, str):
                kind_, val_ = chunk.split(':')
                kw['max_ram'] = {'i32': np.int32, 'i64': np.int64, 'f32': np.float32, 'f64': np.float64, 'int': int}[kind_](float(val_))
                out.probe('memory_limit_as_' + kind_)
                chunk = None
            if chunk is not None:
                kw['max_ram'] = (chunk + 0.5) * 8 * W.n_models * W.n_ap / 1024. ** 3
                if chunk == 1:
                    out.probe('chunk_size_1')
                if chunk < len(strict):
                    out.probe('chunk_smaller_than_window')
            if lo is not None:
                kw['wav_min'] = lo * u.micron
                kw['wav_max'] = hi * u.micron
            what = 'window %s, chunk size %s%s' % ('default' if lo is None else '[%.6g, %.6g]' % (lo, hi), 'default' if chunk is None else chunk,
                                                   ', re-run with overwrite=True over the previous run\'s files' if over else '')
            r = pipe.call(pipe.convolve_model_dir_monochromatic, d, **kw)
            out.compared('convolver-run')
            if r[0] != 'ok':
                out.violate('run-failed', '%s: raised %s: %s' % (what, pipe.exc_name(r), r[1]), key='%s@%s' % (pipe.exc_name(r), pipe.where(r[1]) if r[0] == 'exc' else ''))
                break
            try:
                named = _table_entries(r[1])
            except Exception as e:
                out.violate('table', '%s: returned table cannot be read (%s: %s)' % (what, type(e).__name__, e))
                break
            files = sorted(os.path.basename(x) for x in glob.glob(os.path.join(d, 'convolved', 'MO*.fits')) + glob.glob(os.path.join(d, 'convolved', 'MO*.fits.gz')))
            if sorted(fn + '.fits' for _, fn in named) != files:
                out.violate('files', '%s: table names %s but convolved/ holds %s' % (what, sorted(fn for _, fn in named), files))
                break
            wl = sorted(x for x, _ in named)
            missing = [x for x in strict if not any(abs(x - y) <= 1e-6 * x for y in wl)]
            extra = [y for y in wl if not any(abs(x - y) <= 1e-6 * x for x in incl)]
            if missing or extra or len(wl) != len(set(wl)):
                out.violate('wavelength-set', '%s: files for wavelengths %s; wavelengths strictly inside the window are %s%s' % (
                    what, wl, strict, '' if not extra else '; outside the window: %s' % extra), key='missing' if missing else 'extra')
                break
            h = hashlib.sha256()
            bad = None
            for x, fn in sorted(named):
                rc = pipe.call(read_conv, os.path.join(d, 'convolved', fn + '.fits'))
                if rc[0] != 'ok':
                    bad = '%s: %s unreadable (%s)' % (what, fn, pipe.exc_name(rc))
                    break
                c = rc[1]
                iw = int(np.argmin(np.abs(sw - x)))
                if c['filtwav'] is None or abs(c['filtwav'] - x) > 1e-6 * x:
                    bad = '%s: %s has FILTWAV %r, the table says %r' % (what, fn, c['filtwav'], x)
                    break
                if c['names'] != order:
                    bad = '%s: %s rows %s, parameter-table order is %s' % (what, fn, c['names'], order)
                    break
                if c['flux'].shape != (W.n_models, W.n_ap):
                    bad = '%s: %s table shape %s' % (what, fn, c['flux'].shape)
                    break
                for row, nm in enumerate(c['names']):
                    i = W.names.index(nm)
                    out.compared('row')
                    ef, ee = W.val[i][:, iw], W.unc[i][:, iw]
                    if not (np.allclose(c['flux'][row], ef, rtol=1e-12, atol=0) and np.allclose(c['err'][row], ee, rtol=1e-12, atol=0)):
                        bad = '%s: %s row %s holds %s +- %s, SED %s at %.6g um has %s +- %s' % (what, fn, nm, c['flux'][row], c['err'][row], nm, x, ef, ee)
                        break
                if bad:
                    break
                h.update(repr((round(x, 9), fn)).encode())
                h.update(c['flux'].tobytes())
                h.update(c['err'].tobytes())
            if bad:
                out.violate('contents', bad)
                break
            digests[(chunk, over)] = h.hexdigest()
            for x in incl:
                if x not in strict:
                    inc = any(abs(x - y) <= 1e-6 * x for y in wl)
                    bnd.add(inc)
                    out.probe('window_end_on_node_included' if inc else 'window_end_on_node_excluded')
        if out.violations:
            break
        if len(set(digests.values())) > 1:
            groups = {}
            for k, v in digests.items():
                groups.setdefault(v, []).append(k)
            out.violate('chunk-dependence', 'window %s: files/contents depend on the chunk size: %s' % (win, sorted(groups.values(), key=str)))
            break
        trace.append(('default' if win is None else ('single' if len(win) > 2 else 'range'), len(strict), len(incl) - len(strict), tuple(sorted(bnd))))
    cube = sc.get('cube')
    if cube is not None and not out.violations:
        _cube_part(sc, cube, sim, out, W, trace)
    out.trace = trace


def _cube_part(sc, cube, sim, out, W, trace):
    import random
    from astropy import units as u
    from ..author import write_cube_file, write_conf, gen_source
    spec = sc['world']
    d2 = sim.path('cube')
    os.makedirs(d2)
    n_ap = cube['n_ap']
    g = np.random.default_rng(spec['array_seed'] + 7)
    val = 10 ** g.uniform(0, 2, (W.n_models, n_ap, W.n_wav))
    unc = val * 0.01
    aps = np.sort(10 ** g.uniform(2, 4, n_ap)) if n_ap > 1 else None
    wv = W.wav if cube['asc'] else W.wav[::-1]
    vv, uu = (val, unc) if cube['asc'] else (val[:, :, ::-1], unc[:, :, ::-1])
    write_cube_file(os.path.join(d2, 'flux.fits'), W.names, wv, aps, vv, uu, dtype='f8')
    W.write_params(d2, np.arange(W.n_models))
    write_conf(d2, False, 2, 0.02)
    sw = np.array(W.wav, float)
    req, near = [], []
    for kind, k, frac in cube['requests']:
        if kind == 'on':
            x, j = sw[k], k
        elif kind == 'between':
            x = sw[k] + frac * (sw[k + 1] - sw[k])
            j = k if frac < 0.5 else k + 1
            out.probe('cube_request_between')
        else:
            x = sw[0] * 0.5 if k == 0 else sw[-1] * 2.0
            j = k
            out.probe('cube_request_outside')
        req.append(float(x))
        near.append(j)
    if len(set(req)) < 2:
        return          # a single band makes the 2-parameter regression singular (outside C01's quantifier): nothing to judge
    if cube['memmap']:
        out.probe('cube_memmap')
    rng = random.Random(cube['source_seed'])
    wunit = u.Unit(cube.get('wav_unit', 'micron'))
    flist = [(x * u.micron).to(wunit) for x in req]
    pos_of = list(range(len(req)))              # position of each wavelength request in the filter list
    if cube.get('named_at') is not None and W.fspec:
        rcv = pipe.call(pipe.convolve_model_dir, d2, W.filters(subset=[0]))
        if rcv[0] == 'ok':
            at = min(cube['named_at'], len(flist))
            flist.insert(at, W.fspec[0]['name'])
            pos_of = [p_ if p_ < at else p_ + 1 for p_ in pos_of]
            out.probe('cube_named_band_among_wavelengths')
    s = gen_source(rng, len(flist), 'src', flags=(1,), min_fit=1)
    r = pipe.call(pipe.Fitter, flist, [3.0] * len(flist) * u.arcsec, d2, extinction_law=W.extinction(), av_range=[0., 0.],
                  distance_range=[1., 2.] * u.kpc, use_memmap=cube['memmap'])
    if r[0] == 'ok':
        r = pipe.call(r[1].fit, make_source(s))
    if r[0] != 'ok':
        out.violate('cube-failed', 'Fitter with wavelength filters raised %s: %s' % (pipe.exc_name(r), r[1]), key='%s@%s' % (pipe.exc_name(r), pipe.where(r[1]) if r[0] == 'exc' else ''))
        return
    info = r[1]
    mf = np.asarray(getattr(info.model_fluxes, 'value', info.model_fluxes), float)
    scl = np.asarray(getattr(info.sc, 'value', info.sc), float)
    for row, nm in enumerate(info.model_name):
        i = W.names.index(str(nm).strip())
        for j, jn in enumerate(near):
            out.compared('cube-slice')
            out.probe('cube_slice_checked')
            got = mf[row, pos_of[j]] + 2 * scl[row]
            want = np.log10(val[i, 0, jn])
            # float32 model store: the flux is rounded to float32 (<= 2^-24 relative) and its log10 is taken in float32
            tol = (2.0 ** -22 * max(1.0, abs(want)) + 3e-8) if cube['memmap'] else 1e-12
            out.dev('cube-slice', abs(got - want) / tol)
            if not abs(got - want) <= tol:
                out.violate('cube-slice', 'requested %.6g um: model %s predicted log flux %.12g (scale removed), cube value at the nearest wavelength %.6g um is %.12g' % (
                    req[j], nm, got, sw[jn], want))
                return
    trace.append(('cube', cube['asc'], cube['memmap'], n_ap, tuple(k for k, _, _ in cube['requests'])))


def lowerings(sc, viol=None):
    if sc.get('prelude'):
        yield dict(sc, prelude=None)
    if sc.get('cube') is not None:
        yield dict(sc, cube=None)
        c = sc['cube']
        if len(c['requests']) > 2:
            for i in range(len(c['requests'])):
                yield dict(sc, cube=dict(c, requests=c['requests'][:i] + c['requests'][i + 1:]))
        if c.get('named_at') is not None:
            yield dict(sc, cube=dict(c, named_at=None))
        for key, val in (('memmap', False), ('asc', False), ('n_ap', 1)):
            if c[key] != val:
                yield dict(sc, cube=dict(c, **{key: val}))
    if sc['steps'] and sc.get('cube') is not None:
        yield dict(sc, steps=[])
    for i, st in enumerate(sc['steps']):
        if st.get('rerun'):
            yield dict(sc, steps=sc['steps'][:i] + [dict(st, rerun=[])] + sc['steps'][i + 1:])
        if st['chunks'] == 'all':
            n = sc['world']['n_wav']
            for c in list(range(1, n + 1)) + [None]:
                yield dict(sc, steps=sc['steps'][:i] + [dict(st, chunks=[c])] + sc['steps'][i + 1:])
            for c in range(1, n + 1):
                yield dict(sc, steps=sc['steps'][:i] + [dict(st, chunks=[c, None])] + sc['steps'][i + 1:])
    w = sc['world']
    for key, lo in (('n_models', 1), ('n_ap', 1)):
        if w[key] > lo:
            w2 = dict(w, **{key: lo})
            if w2.get('asc_per_file') is not None:
                w2['asc_per_file'] = w2['asc_per_file'][:w2['n_models']]
            if key == 'n_ap':
                w2['apdep'] = False
            yield dict(sc, world=w2)
    for key, val in (('dtype', 'f8'), ('asc_per_file', None), ('gz', False), ('subdir', 0), ('asc', False)):
        if w.get(key) != val:
            yield dict(sc, world=dict(w, **{key: val}))
