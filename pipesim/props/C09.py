"""C09 - parameter listings follow the fit ranking, for any parameter-file order.

The listing is made by analysts after the author may have rewritten parameters.fits[.gz] in another row order, after
other consumers have touched the same result objects, through a path, one object or a list.
"""
import os

import numpy as np

from .. import env, pipe
from ..author import gen_world, gen_source
from ..ref import n_data_of, ref_select
from ..runner import Outcome

ID = 'C09'
LEVEL = 'exploration'
RULE = ('Seeded scenarios: a real fit file (1..5 sources, all fits kept, either package format, 1..4 parameter columns pairwise distinct by '
        '> 1 %), then 1..5 steps drawn from {author rewrites parameters.fits[.gz] in another row order, write_parameters, '
        'write_parameter_ranges, extract_parameters, plot_params_1d/2d (savefig stubbed, table handed to the plot spied on)} each with '
        'its own selector, optional additional-parameter dictionary, via path / one object / the shared list of objects. Non-trivial = at '
        'least one listed row or range compared with the reference lookup; distinct = distinct (format, #models, #pars, per step (op, '
        'channel, selector form, additional?, kept-count class)).')
ASSUMPTIONS = ['the records of the fit file are taken as given (C10); values are compared at printed precision (|d| <= 6e-4 relative for %.3e, 6e-4 absolute for %.3f)',
               'selectors whose threshold equals an attained value are not judged', 'NaN / +-inf results of degenerate sources must be carried through unchanged']
PROBES = ['param_file_permuted', 'param_file_recompressed', 'zero_fits_selected', 'all_fits_selected', 'additional_used', 'channel_list', 'channel_obj',
          'channel_path', 'nan_or_inf_listed', 'spy_table_checked', 'plot_params_1d', 'plot_params_2d', 'consumer_after_consumer_on_same_objects']


def budgets(tier):
    if tier == 'quick':
        return {'runs': 1800, 'max_wall': 115, 'chunk': 8}
    return {'runs': 40000, 'max_wall': 1500, 'chunk': 16}


def generate(rng, tier, idx):
    w = gen_world(rng, n_models=(1, 8), n_wav=(5, 12), n_filters=(1, 4), n_ap=(2, 3), n_par=(1, 4), allow_zero_band=True)
    w['ext_n'] = rng.choice([3, 8])
    if rng.random() < 0.02:
        # a grid (hence listings and ranges) larger than any plausible internal block size; cube format keeps it cheap
        w.update(format=2, n_models=rng.choice([1030, 2100, 4200]), n_wav=6, asc_per_file=None, mixed=None, zero_band=None, gz=False, subdir=0)
        w['flux_unit'] = 'mJy' if w['flux_unit'] not in ('mJy', 'Jy', 'MJY', 'MJy', 'uJy') else w['flux_unit']
    nf = len(w['filters'])
    sc = {'world': w, 'av_range': [0.0, round(rng.uniform(2, 30), 2)], 'drange': [1.0, rng.choice([1.0, 2.0])],
          'theta_seed': rng.randrange(1 << 30), 'listing_seed': rng.randrange(1 << 30),
          'sources': [gen_source(rng, nf, 's%02d' % i) for i in range(rng.randint(1, 5))],
          'channel': rng.choice(['path', 'list', 'list', 'obj'])}
    steps = []
    for _ in range(rng.randint(1, 5)):
        r = rng.random()
        if r < 0.25:
            steps.append({'op': 'author', 'perm_seed': rng.randrange(1 << 30), 'gz': rng.random() < 0.4})
        else:
            op = rng.choice(['wp', 'wp', 'wpr', 'wpr', 'ep', 'ep', 'pp1', 'pp2'] if rng.random() < 0.4 else ['wp', 'wpr', 'ep'])
            steps.append({'op': op, 'sel': pipe.gen_selector(rng, w['n_models']), 'additional': rng.random() < 0.4,
                          'channel': sc['channel'] if rng.random() < 0.8 else 'path',
                          # options of extract_parameters: a sub-set / re-ordering of the columns, no header line, a file suffix
                          'ep_cols': rng.choice([None, None, 'subset', 'reversed']), 'ep_header': rng.random() < 0.75,
                          'ep_suffix': rng.choice([None, None, '.par'])})
    if rng.random() < 0.3:
        from ..author import prelude_spec
        sc['prelude'] = {'world': prelude_spec(w, rng), 'seed': rng.randrange(1 << 30)}
    sc['steps'] = steps
    return sc


def execute(sc):
    out = Outcome()
    sim = env.Sim('c09', listing_seed=sc['listing_seed'])
    try:
        with sim:
            _execute(dict(sc), sim, out)
    finally:
        out.absorb_sim(sim)
        sim.cleanup()
    return out


def _ulp_of_token(tok):
    """half a unit in the last printed place of a number as it appears in the text (whatever format was used)"""
    t = tok.strip().lower()
    mant, _, ex = t.partition('e')
    dec = len(mant.split('.')[1]) if '.' in mant else 0
    try:
        e = int(ex) if ex else 0
    except ValueError:
        e = 0
    return 0.5 * 10.0 ** (e - dec)


def _close(p, x, rel=True):
    """does the printed token p show the value x, at the precision it was printed with?"""
    tok = p if isinstance(p, str) else None
    try:
        p = float(p)
    except ValueError:
        return False
    if np.isnan(x):
        return np.isnan(p)
    if np.isinf(x):
        return p == x
    if tok is not None:
        return abs(p - x) <= 1.001 * _ulp_of_token(tok) + 1e-12 * abs(x)
    if rel:
        return abs(p - x) <= 6e-4 * abs(x) + 1e-300
    return abs(p - x) <= 6e-4 + 1e-12 * abs(x)


def _f(x):
    return np.array(getattr(x, 'value', x), dtype=float, copy=True)


def hash_order(text, seed):
    import hashlib
    return hashlib.blake2b(('%s/%s' % (seed, text)).encode(), digest_size=8).hexdigest()


class _Spy(object):
    """Wraps FitInfo.filter_table while a consumer runs, to see the table the listing / plot is made from."""

    def __init__(self):
        self.calls = []

    def __enter__(self):
        cls = pipe.FitInfo
        self.orig = cls.__dict__.get('filter_table')
        spy = self
        if self.orig is not None:
            def wrapped(info, *a, **kw):
                t = spy.orig(info, *a, **kw)
                try:
                    spy.calls.append(([str(x).strip() for x in info.model_name], t))
                except Exception:
                    pass
                return t
            cls.filter_table = wrapped
        return self

    def __exit__(self, *a):
        if self.orig is not None:
            pipe.FitInfo.filter_table = self.orig
        return False


def _execute(sc, sim, out):
    from sedfitter import write_parameters, write_parameter_ranges, extract_parameters
    from sedfitter.plot_params_1d import plot_params_1d
    from sedfitter.plot_params_2d import plot_params_2d
    import matplotlib.figure
    fw = pipe.fitted_world(sim, sc, out)
    if fw is None:
        return
    W, d, outp, recs = fw
    names = W.names
    # several additional parameters; neither the outer keys nor the inner model names are inserted in alphabetical order
    add = {}
    # (values as a user would type them: python ints mixed with floats)
    for key_, fn_ in sorted([('ZETA', lambda i: (3 * i + 2) if i % 2 == 0 else 3.3 * i + 0.75), ('ALPHA', lambda i: -1.0 / (i + 1.5)), ('MID', lambda i: 100 + 7 * i),
                             # a stage flag 0 / 1 / 2 and a disc mass that is exactly zero for some models
                             ('STAGE', lambda i: i % 3), ('MDISK', lambda i: 0.0 if i % 2 else 2.5e-3 * (i + 1)),
                             # derived quantities in cgs / photon-rate units: far outside the single-precision range
                             ('QION', lambda i: 1.7e44 * 10.0 ** (i % 6)), ('TINY', lambda i: 3.3e-42 * (i + 1))],
                            key=lambda kv: hash_order(kv[0], sc['theta_seed'])):
        order_ = sorted(range(len(names)), key=lambda i: hash_order(names[i], sc['theta_seed']))
        add[key_] = {names[i]: fn_(i) for i in order_}

    def lookup(col, nm):
        if col in W.pars:
            return float(W.pars[col][names.index(nm)])
        return float(add[col][nm])

    R = []
    for r in recs:
        R.append({'name': r.source.name, 'nd': n_data_of(r.source.valid), 'chi': _f(r.chi2), 'av': _f(r.av), 'sc': _f(r.sc),
                  'names': [str(x).strip() for x in r.model_name]})
    objs = pipe.read_fit_sed(outp)
    trace = [sc['world']['format'], W.n_models, len(W.par_names)]
    touched = False
    for i, st in enumerate(sc['steps']):
        if st['op'] == 'author':
            perm = np.random.default_rng(st['perm_seed']).permutation(W.n_models)
            W.write_params(d, perm, gz=st['gz'])
            out.probe('param_file_permuted')
            if st['gz'] != sc['world']['gz']:
                out.probe('param_file_recompressed')
            trace.append(('author', st['gz']))
            continue
        channel = st['channel']
        if channel == 'obj' and len(objs) != 1:
            channel = 'list'
        arg = outp if channel == 'path' else (objs if channel == 'list' else objs[0])
        out.probe('channel_' + channel)
        if touched and channel != 'path':
            out.probe('consumer_after_consumer_on_same_objects')
        sel = tuple(st['sel'])
        addd = add if st['additional'] else {}
        if st['additional']:
            out.probe('additional_used')
        want = [ref_select(r['chi'], sel, r['nd']) for r in R]
        if any(not isinstance(k, int) for k in want):
            trace.append((st['op'], 'skip'))
            continue
        od = sim.path('o%d' % i)
        os.makedirs(od)
        cols = list(W.par_names) + (list(add.keys()) if st['additional'] else [])
        with _Spy() as spy:
            if st['op'] == 'wp':
                r = pipe.call(write_parameters, arg, od + '/wp.txt', select_format=pipe.sel_arg(sel), additional=addd)
            elif st['op'] == 'wpr':
                r = pipe.call(write_parameter_ranges, arg, od + '/wpr.txt', select_format=pipe.sel_arg(sel), additional=addd)
            elif st['op'] == 'ep':
                allcols = ['MODEL_NAME'] + list(W.par_names)
                if st.get('ep_cols') == 'subset':
                    pcols = [allcols[k] for k in range(len(allcols)) if (k + i) % 2 == 0] or allcols[:1]
                elif st.get('ep_cols') == 'reversed':
                    pcols = allcols[::-1]
                else:
                    pcols = None
                r = pipe.call(extract_parameters, arg, od + '/ep_', select_format=pipe.sel_arg(sel), parameters='all' if pcols is None else pcols,
                              header=bool(st.get('ep_header', True)), output_suffix=st.get('ep_suffix'))
                cols = list(W.par_names)
                st = dict(st, _ep_expect=(pcols or allcols))
            else:
                saved = matplotlib.figure.Figure.savefig
                matplotlib.figure.Figure.savefig = lambda self, *a, **kw: None
                try:
                    if st['op'] == 'pp1':
                        out.probe('plot_params_1d')
                        r = pipe.call(plot_params_1d, arg, W.par_names[0], output_dir=od + '/pp', select_format=pipe.sel_arg(sel), additional=addd, log_x=False)
                    else:
                        out.probe('plot_params_2d')
                        r = pipe.call(plot_params_2d, arg, W.par_names[0], W.par_names[-1], output_dir=od + '/pp', select_format=pipe.sel_arg(sel), log_x=False, log_y=False)
                        cols = list(W.par_names)
                finally:
                    matplotlib.figure.Figure.savefig = saved
                    import matplotlib.pyplot as plt
                    plt.close('all')
        touched = True
        if r[0] != 'ok':
            out.violate('listing-failed', '%s%r via %s raised %s: %s' % (st['op'], sel, channel, pipe.exc_name(r), r[1]),
                        key='%s/%s/%s@%s' % (st['op'], channel, pipe.exc_name(r), pipe.where(r[1]) if r[0] == 'exc' else ''))
            break
        RR = R if channel != 'obj' else R[:1]
        WW = want if channel != 'obj' else want[:1]
        # the table every listing / plot is made from: row i must be the row of the model named in fit i
        for nm_list, t in spy.calls:
            out.compared('table-rows', len(nm_list))
            out.probe('spy_table_checked')
            try:
                tn = [str(x).strip() for x in t['MODEL_NAME']]
                ok = tn == nm_list and all(_close(float(t[c][k]), lookup(c, nm), True) or float(t[c][k]) == lookup(c, nm)
                                           for c in W.par_names + ([a for a in addd] if st['op'] not in ('ep', 'pp2') else []) for k, nm in enumerate(nm_list))
            except Exception as e:
                ok = False
            if not ok:
                out.violate('table-rows', '%s%r: table handed on does not follow the fit ranking (fits %s, table %s)' % (st['op'], sel, nm_list[:4], tn[:4] if 'tn' in dir() else '?'), key=st['op'])
                break
        if out.violations:
            break
        try:
            msg = _check_text(st['op'], od, RR, WW, cols, lookup, out, st)
        except Exception as e:   # unparsable output
            msg = 'output cannot be parsed (%s: %s)' % (type(e).__name__, e)
        if msg:
            out.violate('listing', '%s%r via %s%s: %s' % (st['op'], sel, channel, ' +additional' if st['additional'] else '', msg), key=st['op'])
            break
        ksum = sum(WW)
        tot = sum(len(r['chi']) for r in RR)
        if ksum == 0:
            out.probe('zero_fits_selected')
        if ksum == tot:
            out.probe('all_fits_selected')
        trace.append((st['op'], channel, sel[0], st['additional'], 0 if ksum == 0 else (1 if ksum == tot else 2)))
    out.trace = trace


def _check_text(op, od, R, want, cols, lookup, out, st=None):
    st = st or {}
    if op in ('pp1', 'pp2'):
        return None
    if op == 'wp':
        L = env.real_open(od + '/wp.txt').read().splitlines()
        hdr = L[1].split()
        if len(hdr[5:]) != len(cols):
            return 'column header %s, expected %d parameter columns' % (hdr[5:], len(cols))
        L = L[3:]
        pos = 0
        for r, k in zip(R, want):
            hd = L[pos].split()
            pos += 1
            out.compared('wp-source')
            if hd[0] != r['name'] or int(hd[1]) != r['nd'] or int(hd[2]) != k:
                return 'source line %r, expected name %s n_data %d n_fits %d' % (hd, r['name'], r['nd'], k)
            for i in range(k):
                t = L[pos].split()
                pos += 1
                nm = r['names'][i]
                out.compared('wp-row')
                if not np.all(np.isfinite([r['chi'][i], r['av'][i], r['sc'][i]])):
                    out.probe('nan_or_inf_listed')
                if int(t[0]) != i + 1 or t[1] != nm:
                    return 'fit %d of %s lists model %s, ranking says %s' % (i + 1, r['name'], t[1], nm)
                if not (_close(t[2], r['chi'][i])) or not _close(t[3], r['av'][i]) or not _close(t[4], r['sc'][i]):
                    return 'fit %d of %s: chi2/av/scale %s, expected %r %r %r' % (i + 1, r['name'], t[2:5], r['chi'][i], r['av'][i], r['sc'][i])
                if len(t) != 5 + len(cols):
                    return 'fit row has %d columns, expected %d' % (len(t), 5 + len(cols))
                for ci, c in enumerate(cols):
                    if not _close(t[5 + ci], lookup(c, nm)):
                        return 'fit %d of %s (model %s): column %s shows %s, the parameter file has %r for that model' % (i + 1, r['name'], nm, c, t[5 + ci], lookup(c, nm))
        if pos != len(L):
            return '%d extra lines' % (len(L) - pos)
        return None
    if op == 'wpr':
        L = env.real_open(od + '/wpr.txt').read().splitlines()[3:]
        if len(L) != len(R):
            return '%d lines for %d sources' % (len(L), len(R))
        for ln, r, k in zip(L, R, want):
            t = ln.split()
            out.compared('wpr-source')
            if t[0] != r['name'] or int(t[1]) != r['nd'] or int(t[2]) != k:
                return 'source line %r, expected name %s n_data %d n_fits %d' % (t[:3], r['name'], r['nd'], k)
            if k == 0:
                if len(t[3:]) != 3 * (3 + len(cols)) or any(x != '-' for x in t[3:]):
                    return 'no fit selected but line shows %s' % t[3:]
                continue

            def trip(a):
                a = np.asarray(a, float)[:k]
                if np.all(np.isnan(a)):
                    return [np.nan, a[0], np.nan]
                return [np.nanmin(a), a[0], np.nanmax(a)]
            exp = trip(r['chi']) + trip(r['av']) + trip(r['sc'])
            for c in cols:
                exp += trip([lookup(c, nm) for nm in r['names']])
            if len(t[3:]) != len(exp):
                return 'line has %d values, expected %d' % (len(t[3:]), len(exp))
            for j, (a, b) in enumerate(zip(t[3:], exp)):
                out.compared('wpr-value')
                if not _close(a, b):
                    q = (['chi2', 'av', 'scale'] + list(cols))[j // 3]
                    return 'source %s: %s of %s shows %s, expected %r over the %d selected fits' % (r['name'], ['min', 'best', 'max'][j % 3], q, a, b, k)
        return None
    if op == 'ep':
        for r, k in zip(R, want):
            E = env.real_open(od + '/ep_' + r['name'] + (st.get('ep_suffix') or '')).read().splitlines()
            out.compared('ep-source')
            expect_cols = list(st.get('_ep_expect') or (['MODEL_NAME'] + list(cols)))
            if st.get('ep_header', True):
                if len(E) != k + 1:
                    return 'file of %s has %d rows, expected %d' % (r['name'], len(E) - 1, k)
                hdr = E[0].split()
                pcols = hdr[3:]
                if len(pcols) == len(expect_cols) and [c.lower() for c in pcols] == [c.lower() for c in expect_cols]:
                    pcols = expect_cols
                if [c.lower() for c in pcols] != [c.lower() for c in expect_cols]:
                    return 'header lists columns %s, requested %s' % (pcols, expect_cols)
            else:
                if len(E) != k:
                    return 'file of %s (no header) has %d rows, expected %d' % (r['name'], len(E), k)
                E = [''] + E
                pcols = expect_cols
            for i in range(k):
                t = E[1 + i].split()
                nm = r['names'][i]
                out.compared('ep-row')
                if not (_close(t[0], r['chi'][i]) and _close(t[1], r['av'][i]) and _close(t[2], r['sc'][i])):
                    return 'row %d of %s: chi2/av/scale %s, expected %r %r %r' % (i + 1, r['name'], t[:3], r['chi'][i], r['av'][i], r['sc'][i])
                for ci, c in enumerate(pcols):
                    if c == 'MODEL_NAME':
                        if t[3 + ci] != nm:
                            return 'row %d of %s lists model %s, ranking says %s' % (i + 1, r['name'], t[3 + ci], nm)
                    elif not _close(t[3 + ci], lookup(c, nm)):
                        return 'row %d of %s (model %s): %s shows %s, parameter file has %r' % (i + 1, r['name'], nm, c, t[3 + ci], lookup(c, nm))
        return None


def lowerings(sc, viol=None):
    if sc.get('prelude'):
        yield dict(sc, prelude=None)
    for i in range(len(sc['sources'])):
        if len(sc['sources']) > 1:
            yield dict(sc, sources=sc['sources'][:i] + sc['sources'][i + 1:])
    for i, st in enumerate(sc['steps']):
        if st['op'] != 'author':
            for key, val in (('channel', 'path'), ('additional', False), ('sel', ['A', 0])):
                if st[key] != val:
                    yield dict(sc, steps=sc['steps'][:i] + [dict(st, **{key: val})] + sc['steps'][i + 1:])
    w = sc['world']
    for key, lo in (('n_models', 2), ('n_par', 1), ('n_wav', 5)):
        if w[key] > lo:
            w2 = dict(w, **{key: lo})
            w2['mixed'] = None
            if w2.get('asc_per_file') is not None:
                w2['asc_per_file'] = w2['asc_per_file'][:w2['n_models']]
            yield dict(sc, world=w2)
    for key, val in (('ext_n', 3), ('dtype', 'f8'), ('asc_per_file', None), ('gz', False), ('subdir', 0)):
        if w.get(key) != val:
            yield dict(sc, world=dict(w, **{key: val}))
