"""C05 - selection tuples keep exactly the fits the syntax page promises.

A model-based history machine on ONE mutable result object: keep(selector) steps interleaved with pickle hops, file
hops (FitInfoFile write + read back) and consumer hops (write_parameters on the file with its own selector), checked
step by step against ref_select on reference rows captured when the object was created.
"""
import os
import pickle

import numpy as np

from .. import env, pipe
from ..author import World, gen_world, gen_source, source_line, make_source
from ..ref import ref_select, n_data_of
from ..runner import Outcome

ID = 'C05'
LEVEL = 'exploration'
ALPHA = [0., 0.5, 0.5, 2., 7.25, 1e30, float('inf'), float('nan')]
TH = [-1, 0.25, 1, 3, 10, 1e29, 1e31, float('inf')]
RULE = ('Histories of 1..5 operations on one FitInfo: keep(sel) with the six selector forms (thresholds from a grid; a step whose '
        'threshold equals an attained value is skipped because the property is silent on equality), pickle hop, file hop, consumer hop. '
        'Family a: synthetic results built through the public class (chi^2 of length 0..8 over an alphabet with ties, 1e30, inf, NaN; every '
        'per-fit array tagged by row; 1 run in 250 adds 1100..140000 random further fits with a relative selector cutting inside them). Family b: results of a real fit of a package holding duplicate SEDs (exact ties) and sources with '
        'confidence-1 limits (chi^2 >= 1e30). Non-trivial = at least one step compared with >= 1 row in play; distinct = distinct '
        '(family, chi^2 pattern class, n_data, per-step (op, selector form, kept count class)).')
ASSUMPTIONS = ['FitInfo.sort order (numpy argsort, NaN last) is taken as the ranking', 'selector thresholds equal to an attained value are not judged',
               "('A', v) is used with an arbitrary v, as in the documentation"]
PROBES = ['tie_in_chi2', 'nan_present', 'inf_present', 'zero_length_result', 'kept_zero', 'kept_all', 'kept_some', 'equal_threshold_skipped',
          'hop_pickle', 'hop_file', 'hop_consumer', 'family_real', 'composition_checked', 'n_beyond_total', 'flags_edited_in_place', 'rejected_flag_assignment', 'hop_file_pair', 'long_ranking', 'long_relative_cut_inside', 'hop_plot_several_sources', 'plot_threshold_tuned_on_a_source', 'sibling_result_selected_in_between', 'one_selector_list_updated_in_place']


def budgets(tier):
    if tier == 'quick':
        return {'runs': 50000, 'max_wall': 110, 'chunk': 400}
    return {'runs': 1500000, 'max_wall': 1500, 'chunk': 2000}


def _gen_sel(rng):
    form = rng.choice(['A', 'N', 'C', 'D', 'E', 'F'])
    if form == 'N':
        return [form, rng.randint(0, 10)]
    return [form, rng.choice(TH)]


def generate(rng, tier, idx):
    real = rng.random() < 0.04
    sc = {'family': 'b' if real else 'a'}
    if real:
        w = gen_world(rng, n_models=(2, 8), n_wav=(5, 12), n_filters=(2, 4), n_ap=(2, 3), n_par=(1, 2), allow_gz=False, allow_subdir=False)
        w['ext_n'] = 3
        w['dup'] = [[rng.randrange(w['n_models']), rng.randrange(w['n_models'])] for _ in range(rng.randint(0, 3))]
        sc['world'] = w
        nf = len(w['filters'])
        sc['source'] = gen_source(rng, nf, 'src', flags=(0, 1, 1, 1, 2, 3, 3, 4, 9), min_fit=1)
        for j, v in enumerate(sc['source']['valid']):
            if v in (2, 3) and rng.random() < 0.6:
                sc['source']['error'][j] = 1.0
        sc['av_range'] = [0.0, round(rng.uniform(2, 30), 2)]
        sc['drange'] = [1.0, rng.choice([1.0, 2.0])]
        sc['theta_seed'] = rng.randrange(1 << 30)
        sc['memmap'] = rng.random() < 0.5
    else:
        n = rng.randint(0, 8)
        sc['chi_idx'] = [rng.randrange(len(ALPHA)) for _ in range(n)]
        nw = rng.randint(1, 6)
        v = [rng.choice([0, 1, 2, 3, 4, 9]) for _ in range(nw)]
        v[rng.randrange(nw)] = rng.choice([1, 4])
        sc['valid'] = v
        sc['with_fluxes'] = rng.random() < 0.5
        sc['valid_as'] = rng.choice(['list', 'list', 'float64', 'float32', 'uint8', '>i4', 'tuple'])     # how the flags are held
    steps = []
    for _ in range(rng.randint(1, 5)):
        op = rng.choice(['keep', 'keep', 'keep', 'keep', 'pickle', 'file', 'file_pair', 'flags', 'bad_assign', 'sibling'] + (['consumer', 'consumer', 'consumer'] if real else []))
        st = {'op': op}
        if op == 'file_pair':
            # the result is written twice into ONE open file, its Source edited in place between the two writes
            st['k'] = rng.randrange(12)
            st['v'] = rng.choice([0, 1, 2, 3, 4, 9])
        if op == 'flags':
            # the user edits the flags of the result's Source IN PLACE between two selections
            st['k'] = rng.randrange(12)
            st['v'] = rng.choice([0, 1, 2, 3, 4, 9])
        if op == 'sibling':
            # the same process selects on ANOTHER result in between (with / without stored fluxes, other length)
            st['sel'] = _gen_sel(rng)
            st['n'] = rng.randint(0, 6)
            st['with_fluxes'] = rng.random() < 0.5
        if op in ('keep', 'consumer'):
            st['sel'] = _gen_sel(rng)
        if op == 'consumer' and rng.random() < 0.5:
            # the analyst plots several sources in one call, with a cap on the number of fits shown per source
            st['via'] = 'plot'
            st['plot_max'] = rng.choice([None, 1, 2, 3])
            st['others'] = [rng.randrange(1 << 30) for _ in range(rng.randint(1, 3))]
            # the threshold is tuned on one of the sources (between two of its fits), as an analyst would
            st['thr'] = {'src': rng.randrange(4), 'rank': rng.randrange(8)} if rng.random() < 0.7 else None
            st['pos'] = rng.randrange(3)
            st['channel'] = rng.choice(['path', 'list'])
        steps.append(st)
    sc['steps'] = steps
    sc['sel_reuse'] = rng.random() < 0.3
    if not real and rng.random() < 0.004:
        # a ranking far longer than any internal block size a reimplementation might use; one relative selector is
        # guaranteed whose cut falls well inside the vector
        rel = [st for st in steps if st['op'] == 'keep' and st['sel'][0] in 'DF' and 0 < st['sel'][1] < 100]
        if not rel:
            st = {'op': 'keep', 'sel': [rng.choice('DF'), rng.choice([0.25, 1, 3, 10])]}
            steps.insert(rng.randrange(len(steps) + 1), st)
            rel = [st]
        st = rng.choice(rel)
        span = st['sel'][1] * (n_data_of(sc['valid']) if st['sel'][0] == 'F' else 1)
        sc['long'] = {'n': rng.choice([1100, 2500, 5000, 9000, 17000, 20000, 33000, 40000, 70000, 140000]), 'seed': rng.randrange(1 << 30),
                      'hi': span * rng.uniform(1.05, 3.0), 'base': rng.choice([0.0, 0.0, 2.5, 1e3])}
    return sc


def execute(sc):
    out = Outcome()
    sim = env.Sim('c05')
    try:
        with sim:
            _execute(sc, sim, out)
    finally:
        out.absorb_sim(sim)
        sim.cleanup()
    return out


def _build_synthetic(sc):
    from astropy import units as u
    from sedfitter.extinction import Extinction
    from sedfitter.source import Source
    chi = np.array([ALPHA[i] for i in sc['chi_idx']], float)
    if sc.get('long'):
        lg = sc['long']
        chi = np.concatenate([chi, lg['base'] + np.random.RandomState(lg['seed']).uniform(0, lg['hi'], lg['n'])])
    chi = np.sort(chi)
    n = len(chi)
    s = Source()
    s.name = 'x'
    s.x = 0.
    s.y = 0.
    nw = len(sc['valid'])
    va = sc.get('valid_as', 'list')
    s.valid = list(sc['valid']) if va == 'list' else (tuple(sc['valid']) if va == 'tuple' else np.array(sc['valid'], dtype=va))
    s.flux = [1.] * nw
    s.error = [.1] * nw
    info = pipe.FitInfo(s)
    info.chi2 = chi.copy()
    info.av = np.arange(n) + 0.25
    info.sc = np.arange(n) - 0.5
    info.model_id = np.arange(n)[::-1].copy()
    info.model_name = np.array(['m%d' % i for i in range(n)])
    info.model_fluxes = (np.arange(n)[:, None] + np.zeros((n, nw))) if sc['with_fluxes'] else None
    e = Extinction()
    e.wav = [0.1, 1., 10.] * u.micron
    e.chi = [3., 2., 1.] * u.cm ** 2 / u.g
    info.meta.model_dir = 'd'
    info.meta.filters = []
    info.meta.extinction_law = e
    return info


def _build_real(sc, sim, out):
    import random
    spec = sc['world']
    W = World(spec)
    for a, b in spec.get('dup', []):
        if a != b:
            W.sed[b] = W.sed[a]
            W.val[b] = W.val[a]
            W.unc[b] = W.unc[a]
    rng = random.Random(sc['theta_seed'])
    sc2 = dict(sc, theta=pipe.theta_for(W, rng, len(W.fspec), dmin=sc['drange'][0]))
    d = W.write(sim.path('pkg'))
    r = pipe.call(pipe.convolve_model_dir, d, W.filters())
    if r[0] != 'ok':
        out.discarded = 'setup-convolve:' + pipe.exc_name(r)
        return None, None
    names, ap = pipe.filter_args(W, sc2)
    r = pipe.call(pipe.Fitter, names, ap, d, use_memmap=sc['memmap'], **pipe.fitter_kwargs(W, sc2))
    if r[0] != 'ok':
        out.discarded = 'setup-fitter:' + pipe.exc_name(r)
        return None, None
    sim.c05_fitter = r[1]
    r = pipe.call(r[1].fit, make_source(sc['source']))
    if r[0] != 'ok':
        out.discarded = 'setup-fit:' + pipe.exc_name(r)
        return None, None
    return r[1], W


def _f(x):
    return None if x is None else np.array(getattr(x, 'value', x), dtype=float, copy=True)


def _eq(a, b):
    return a.shape == b.shape and np.array_equal(a, b, equal_nan=True)


def _execute(sc, sim, out):
    if sc['family'] == 'a':
        info = _build_synthetic(sc)
        nd = n_data_of(sc['valid'])
    else:
        info, W = _build_real(sc, sim, out)
        if info is None:
            return
        nd = n_data_of(sc['source']['valid'])
        out.probe('family_real')
    # reference rows: a deep copy of every per-fit array as the object was created
    R = {'chi2': _f(info.chi2), 'av': _f(info.av), 'sc': _f(info.sc), 'model_id': _f(info.model_id),
         'model_name': [str(x) for x in info.model_name], 'model_fluxes': _f(info.model_fluxes)}
    n0 = len(R['chi2'])
    if sc.get('long'):
        out.probe('long_ranking')
    if n0 == 0:
        out.probe('zero_length_result')
    fin = R['chi2'][np.isfinite(R['chi2'])]
    if len(fin) != len(set(fin.tolist())):
        out.probe('tie_in_chi2')
    if np.any(np.isnan(R['chi2'])):
        out.probe('nan_present')
    if np.any(np.isinf(R['chi2'])):
        out.probe('inf_present')
    if np.any(np.diff(R['chi2'][~np.isnan(R['chi2'])]) < 0):
        out.violate('not-ranked', 'initial result is not in non-decreasing chi^2 order')   # C04's clause; stops the history
        return
    k = n0                       # reference: number of rows still kept
    shared_sel = ['A', 0]
    counts_on_original = []
    trace = [sc['family'], n0, nd, 'nan' if np.any(np.isnan(R['chi2'])) else '', 'inf' if np.any(np.isinf(R['chi2'])) else '']
    path = sim.path('hop.fitinfo')

    def check(step_no, what):
        out.compared('state-vs-reference')
        got = {'chi2': _f(info.chi2), 'av': _f(info.av), 'sc': _f(info.sc), 'model_id': _f(info.model_id),
               'model_fluxes': _f(info.model_fluxes)}
        bad = []
        for key, g in got.items():
            r = R[key]
            if r is None or g is None:
                if (r is None) != (g is None):
                    bad.append(key)
                continue
            if not _eq(g, r[:k]):
                bad.append(key)
        if [str(x) for x in info.model_name] != R['model_name'][:k]:
            bad.append('model_name')
        try:
            if info.n_fits != k:
                bad.append('n_fits')
        except Exception:
            bad.append('n_fits')
        if bad:
            out.violate('selection', 'after step %d (%s): kept fits are not the first %d reference rows in %s (lengths: chi2=%d)' % (
                step_no, what, k, bad, len(got['chi2'])), key=what.split('(')[0])
        return not bad

    for i, st in enumerate(sc['steps']):
        op = st['op']
        if op == 'flags':
            v = np.asarray(info.source.valid)
            kk = st['k'] % len(v)
            trial = v.copy()
            trial[kk] = st['v']
            if n_data_of(trial) >= 1:
                info.source.valid[kk] = st['v']            # in place, through the array
                nd = n_data_of(info.source.valid)
                out.probe('flags_edited_in_place')
            trace.append((op,))
            continue
        if op == 'sibling':
            sib = _build_synthetic({'chi_idx': list(range(st['n'])), 'valid': [1, 4], 'with_fluxes': st['with_fluxes']})
            pipe.call(sib.keep, tuple(st['sel']))
            out.probe('sibling_result_selected_in_between')
            trace.append((op, st['with_fluxes']))
            continue
        if op == 'bad_assign':
            try:
                info.source.valid = [1] * (len(info.source.valid) - 1) + [7]       # rejected: 7 is not a flag
            except Exception:
                out.probe('rejected_flag_assignment')
            nd = n_data_of(info.source.valid)
            trace.append((op,))
            continue
        if op == 'keep':
            sel = tuple(st['sel'])
            want = ref_select(R['chi2'][:k], sel, nd)
            if want == 'equal':
                out.probe('equal_threshold_skipped')
                trace.append((op, sel[0], 'skip'))
                continue
            if want == 'ambiguous':
                out.probe('ambiguous_skipped')
                trace.append((op, sel[0], 'skip'))
                continue
            on_orig = ref_select(R['chi2'], sel, nd)
            if isinstance(on_orig, int):
                counts_on_original.append(on_orig)
            if sel[0] == 'N' and sel[1] > k:
                out.probe('n_beyond_total')
            if sc.get('sel_reuse'):
                # a threshold scan: ONE list object, updated in place between the calls
                shared_sel[:] = [sel[0], sel[1]]
                out.probe('one_selector_list_updated_in_place')
                r = pipe.call(info.keep, shared_sel)
            else:
                r = pipe.call(info.keep, pipe.sel_arg(sel))
            if r[0] != 'ok':
                out.violate('selection', 'keep%r raised %s: %s' % (sel, pipe.exc_name(r), r[1]), key='keep/%s' % pipe.exc_name(r))
                break
            kprev = k
            k = want
            if sel[0] in 'DF' and 1000 < k < kprev:
                out.probe('long_relative_cut_inside')
            out.probe('kept_zero' if k == 0 else ('kept_all' if k == kprev else 'kept_some'))
            trace.append((op, sel[0], 0 if k == 0 else (1 if k == kprev else 2)))
            if not check(i, 'keep%r' % (sel,)):
                break
        elif op == 'pickle':
            m = info.meta
            info = pickle.loads(pickle.dumps(info, 2))
            info.meta = m
            out.probe('hop_pickle')
            trace.append((op,))
            if not check(i, 'pickle hop'):
                break
        elif op == 'file':
            r = pipe.call(pipe.write_fit_file, path, [info])
            if r[0] == 'ok':
                r = pipe.call(pipe.read_fit_sed, path)
            if r[0] != 'ok' or len(r[1]) != 1:
                out.violate('selection', 'file hop failed: %s' % (pipe.exc_name(r) or 'record count %d' % len(r[1])), key='filehop')
                break
            info = r[1][0]
            out.probe('hop_file')
            trace.append((op,))
            if not check(i, 'file hop'):
                break
        elif op == 'file_pair':
            import copy as _copy
            f = pipe.FitInfoFile(path, 'w')
            r = pipe.call(f.write, _copy.copy(info) if False else info)
            v_ = np.asarray(info.source.valid)
            kk = st['k'] % len(v_)
            trial = v_.copy()
            trial[kk] = st['v']
            if n_data_of(trial) >= 1:
                info.source.valid[kk] = st['v']
                nd = n_data_of(info.source.valid)
            if r[0] == 'ok':
                r = pipe.call(f.write, info)
            pipe.call(f.close)
            if r[0] == 'ok':
                r = pipe.call(pipe.read_fit_sed, path)
            if r[0] != 'ok' or len(r[1]) != 2:
                out.violate('selection', 'two-record file hop failed: %s' % (pipe.exc_name(r) or 'record count %d' % len(r[1])), key='filehop2')
                break
            want_flags = [int(x) for x in info.source.valid]
            info = r[1][1]
            out.probe('hop_file_pair')
            trace.append((op,))
            if [int(x) for x in info.source.valid] != want_flags:
                out.violate('selection', 'second record of a file reads back with flags %s, written with %s (same Source object as the first record, edited in between)' % (
                    [int(x) for x in info.source.valid], want_flags), key='filehop2')
                break
            if not check(i, 'two-record file hop'):
                break
        elif op == 'consumer':
            # the analyst's view: write_parameters on the file with its own selector; the object is not touched
            sel = tuple(st['sel'])
            want = ref_select(R['chi2'][:k], sel, nd)
            if not isinstance(want, int):
                out.probe('equal_threshold_skipped')
                trace.append((op, sel[0], 'skip'))
                continue
            if st.get('via') == 'plot':
                msg = _plot_consumer(sc, st, sel, info, R, k, nd, path, out, getattr(sim, 'c05_fitter', None))
                if msg == 'skip':
                    trace.append((op, 'plot', sel[0], 'skip'))
                    continue
                if msg:
                    out.violate('selection', msg, key='plot')
                    break
                trace.append((op, 'plot', sel[0], st.get('plot_max')))
                continue
            from sedfitter import write_parameters
            r = pipe.call(pipe.write_fit_file, path, [info])
            if r[0] == 'ok':
                r = pipe.call(write_parameters, path, path + '.txt', select_format=pipe.sel_arg(sel))
            if r[0] != 'ok':
                out.violate('selection', 'consumer hop failed: %s %s' % (pipe.exc_name(r), r[1]), key='consumerhop/%s' % pipe.exc_name(r))
                break
            L = env.real_open(path + '.txt').read().splitlines()[3:]
            out.compared('consumer-count')
            out.probe('hop_consumer')
            try:
                hd = L[0].split()
                listed = [ln.split()[1] for ln in L[1:]]
                ok = int(hd[1]) == nd and int(hd[2]) == want and listed == R['model_name'][:want]
            except Exception:
                ok = False
            if not ok:
                out.violate('selection', 'write_parameters%r on the file lists %r, reference says the first %d rows (n_data %d)' % (
                    sel, L[:1] + L[1:][:3], want, nd), key='consumer')
                break
            trace.append((op, sel[0], 0 if want == 0 else (1 if want == k else 2)))
    if not out.violations and counts_on_original and not any(st['op'] in ('flags', 'bad_assign', 'file_pair') for st in sc['steps']):
        # composition: the end state equals one selection with the tightest selector evaluated on the original
        out.compared('composition')
        out.probe('composition_checked')
        if k != min(counts_on_original):
            out.violate('composition', 'a history of selectors kept %d fits; the tightest of them alone keeps %d' % (k, min(counts_on_original)))
    out.trace = trace


def _plot_consumer(sc, st, sel, info, R, k, nd, path, out, ft):
    """plot() of several sources in one call: per source, the number of fits drawn is what the selector keeps of that
    source's ranking, capped by plot_max.  The objects handed over are not touched (their state is re-checked later)."""
    import copy
    from sedfitter import plot
    if ft is None:
        return 'skip'
    infos = [info]
    for j, seed in enumerate(st['others']):
        g = np.random.default_rng(seed)
        c = 10 ** g.uniform(-0.5, 0.5, len(sc['source']['valid']))
        s2 = dict(sc['source'], name='other%d' % j, flux=[f * cc if v != 4 else f + float(np.log10(cc)) for f, v, cc in zip(sc['source']['flux'], sc['source']['valid'], c)],
                  error=[e * cc if v in (1, 9) else e for e, v, cc in zip(sc['source']['error'], sc['source']['valid'], c)])
        s2.pop('arrays', None)
        r = pipe.call(ft.fit, make_source(s2))
        if r[0] != 'ok':
            return 'skip'
        infos.insert(min(st['pos'], len(infos)) if j == 0 else len(infos), r[1])
    if st.get('thr') and sel[0] in 'CDEF':
        x = infos[st['thr']['src'] % len(infos)]
        chi = R['chi2'][:k] if x is info else _f(x.chi2)
        n_d = nd if x is info else n_data_of(x.source.valid)
        with np.errstate(all='ignore'):
            stat = {'C': chi, 'D': chi - chi[:1], 'E': chi / n_d, 'F': (chi - chi[:1]) / n_d}[sel[0]] if len(chi) else chi
        stat = stat[np.isfinite(stat)]
        if len(stat):
            j = st['thr']['rank'] % len(stat)
            thr = float((stat[j] + stat[j + 1]) / 2) if j + 1 < len(stat) else float(stat[-1] * 1.5 + 1)
            sel = (sel[0], thr)
            out.probe('plot_threshold_tuned_on_a_source')
    want = {}
    for x in infos:
        chi = R['chi2'][:k] if x is info else _f(x.chi2)
        n_d = nd if x is info else n_data_of(x.source.valid)
        w = ref_select(chi, sel, n_d)
        want[x.source.name] = min(w, st['plot_max']) if (isinstance(w, int) and st['plot_max']) else w
    r = pipe.call(pipe.write_fit_file, path, infos)
    if r[0] != 'ok':
        return 'skip'
    arg = path if st['channel'] == 'path' else [copy.deepcopy(x) for x in infos]
    if st['channel'] == 'list':
        for a_, x in zip(arg, infos):
            a_.meta = x.meta
    r = pipe.call(plot, arg, select_format=pipe.sel_arg(sel), plot_max=st['plot_max'], sed_type='largest', memmap=False)
    out.probe('hop_plot_several_sources')
    if r[0] != 'ok':
        return 'plot%r of %d sources raised %s: %s' % (sel, len(infos), pipe.exc_name(r), r[1])
    out.compared('plot-count')
    for x in infos:
        nm = x.source.name
        w = want[nm]
        if not isinstance(w, int):
            out.probe('equal_threshold_skipped')
            continue
        fig = r[1].get(nm)
        got = len(fig['lines'].get_segments()) if (fig is not None and 'lines' in fig) else 0
        if got != w:
            return ('plot%r with plot_max=%r of sources %s (via %s): %d fits drawn for %s, the selector keeps %s of its %d fits' % (
                sel, st['plot_max'], [y.source.name for y in infos], st['channel'], got, nm, ref_select(R['chi2'][:k] if x is info else _f(x.chi2), sel, nd if x is info else n_data_of(x.source.valid)), len(_f(x.chi2))))
    return None


def lowerings(sc, viol=None):
    if sc.get('sel_reuse'):
        yield dict(sc, sel_reuse=False)
    if sc['family'] == 'a':
        if sc.get('long'):
            yield {k: v for k, v in sc.items() if k != 'long'}
            if sc['long']['n'] > 1100:
                yield dict(sc, long=dict(sc['long'], n=max(1100, sc['long']['n'] // 2)))
        for i in range(len(sc['chi_idx'])):
            yield dict(sc, chi_idx=sc['chi_idx'][:i] + sc['chi_idx'][i + 1:])
        if sc['with_fluxes']:
            yield dict(sc, with_fluxes=False)
        if len(sc['valid']) > 1:
            for i in range(len(sc['valid'])):
                v = sc['valid'][:i] + sc['valid'][i + 1:]
                if any(x in (1, 4) for x in v):
                    yield dict(sc, valid=v)
    else:
        w = sc['world']
        if w.get('dup'):
            yield dict(sc, world=dict(w, dup=[]))
        if w['n_models'] > 2:
            w2 = dict(w, n_models=2, dup=[], mixed=None)
            if w2.get('asc_per_file') is not None:
                w2['asc_per_file'] = w2['asc_per_file'][:2]
            yield dict(sc, world=w2)
    for i, st in enumerate(sc['steps']):
        if st['op'] in ('pickle', 'file', 'file_pair'):
            yield dict(sc, steps=sc['steps'][:i] + sc['steps'][i + 1:])
