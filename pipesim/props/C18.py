"""C18 - filter_output splits sources into two complete, disjoint, faithful files.

A stream of result records is routed to two writers; inputs come as a path or a list; the output of one split can be
the input of the next.
"""
import os

import numpy as np

from .. import env, pipe
from ..author import gen_world, gen_source
from ..canon import canon_record
from ..ref import n_data_of
from ..runner import Outcome

ID = 'C18'
LEVEL = 'exploration'
RULE = ('Seeded scenarios: a real fit file of 1..10 sources (>= 1 fitted point and >= 1 fit each; best chi^2 spread over many decades, some '
        '>= 1e30 through confidence-1 limits), then 1..2 split steps: criterion chi|cpd, threshold (not judged when it equals an attained '
        'value), explicit or automatic output names (found by directory diff), input as path or list, second step on the good or bad file of '
        'the first. Non-trivial = a split whose outputs were compared record by record; distinct = distinct (format, #sources, per step '
        '(criterion, naming, channel, #good, #bad)).')
ASSUMPTIONS = ['input records come from a real fit() run (their correctness is C10\'s subject)', 'a zero-byte output file is an empty list of records',
               'thresholds are > 0 and never equal to an attained value']
PROBES = ['good_empty', 'bad_empty', 'both_nonempty', 'auto_names', 'channel_list', 'second_split', 'best_chi2_ge_1e30', 'output_names_reused', 'synthetic_threshold_adjacent', 'explicit_names_auto_in_name', 'explicit_names_auto_dir', 'explicit_names_swapped_words', 'explicit_names_next_to_input', 'threshold_not_a_python_float', 'one_name_explicit_one_automatic']


def budgets(tier):
    if tier == 'quick':
        return {'runs': 5000, 'max_wall': 110, 'chunk': 12}
    return {'runs': 30000, 'max_wall': 1500, 'chunk': 20}


def _generate_synthetic(rng):
    """Hand-made records whose best chi^2 sits ON the floating-point boundary of the criterion: threshold*n_data rounded,
    and its neighbours one ulp below / above (the pipeline never produces such coincidences, a user's catalogue can)."""
    steps = []
    for k in range(rng.choice([1, 1, 2])):
        steps.append({'criterion': rng.choice(['cpd', 'cpd', 'chi']), 'threshold': rng.choice([0.9, 0.7, 3.3, 0.35, 0.1, 1.1, 2.675, 6.0, 0.3]) * rng.choice([1, 1, 10, 0.01]),
                      'naming': rng.choice(['explicit', 'auto']), 'channel': rng.choice(['path', 'list']), 'input': 'fit', 'reuse_names': rng.random() < 0.5,
                      'auto_as': rng.choice(['default', 'runtime'])})
    recs = []
    for i in range(rng.randint(1, 8)):
        n = rng.randint(1, 9)
        flags = [1] * n + [rng.choice([0, 2, 3, 9]) for _ in range(rng.randint(0, 3))]
        rng.shuffle(flags)
        recs.append({'flags': flags, 'nfits': rng.randint(1, 4), 'kind': rng.choice(['at', 'below', 'above', 'below', 'above', 'random']),
                     'step': rng.randrange(len(steps)), 'u': rng.random()})
    return {'family': 'synthetic', 'records': recs, 'steps': steps, 'clock': {'kind': 'steady'}, 'listing_seed': 0}


def generate(rng, tier, idx):
    if rng.random() < 0.25:
        return _generate_synthetic(rng)
    w = gen_world(rng, n_models=(1, 6), n_wav=(5, 12), n_filters=(1, 4), n_ap=(2, 3), n_par=(1, 1), allow_gz=False, allow_subdir=False, allow_zero_band=True)
    w['ext_n'] = rng.choice([3, 8])
    nf = len(w['filters'])
    n = rng.randint(1, 10)
    sources = []
    for i in range(n):
        s = gen_source(rng, nf, 's%02d' % i, flags=(0, 1, 1, 1, 2, 3, 4, 9), min_fit=1)
        scale = 10 ** rng.uniform(-3, 3)
        for j, v in enumerate(s['valid']):
            if v in (1, 9):
                s['flux'][j] = float('%.6e' % (s['flux'][j] * scale))
                s['error'][j] = float('%.6e' % (s['flux'][j] * 10 ** rng.uniform(-3, -0.5)))
            if v in (2, 3) and rng.random() < 0.5:
                s['error'][j] = 1.0
        sources.append(s)
    sc = {'world': w, 'av_range': [0.0, round(rng.uniform(2, 30), 2)], 'drange': [1.0, rng.choice([1.0, 2.0])],
          'theta_seed': rng.randrange(1 << 30), 'listing_seed': rng.randrange(1 << 30), 'sources': sources,
          'fit_sel': rng.choice([['A', 0], ['A', 0], ['N', rng.randint(1, 4)], ['F', 3.3]]),
          'output_convolved': rng.random() < 0.3, 'clock': pipe.gen_clock(rng)}
    steps = []
    for k in range(rng.choice([1, 1, 2, 3])):
        steps.append({'criterion': rng.choice(['chi', 'cpd']), 'threshold': float('%.4g' % (10 ** rng.uniform(-2, 6))) if rng.random() < 0.8 else rng.choice([1e29, 1e31, 1e-9]),
                      'naming': rng.choice(['explicit', 'auto']), 'channel': rng.choice(['path', 'list']), 'auto_as': rng.choice(['default', 'runtime']),
                      'name_style': rng.choice(['plain', 'plain', 'auto_in_name', 'auto_dir', 'swapped_words', 'next_to_input']),
                      'thr_type': rng.choice(['float', 'float', 'int', 'i64', 'f32', 'f64']),
                      'one_auto': rng.choice([None, None, None, 'good', 'bad']),
                      # later steps either split an output of the previous step, or re-filter the SAME input again (tuning the
                      # threshold), in which case the outputs of the earlier run are still lying around under the same names
                      'input': 'fit' if k == 0 else rng.choice(['good', 'bad', 'fit', 'fit']),
                      'reuse_names': rng.random() < 0.6})
    if rng.random() < 0.3:
        from ..author import prelude_spec
        sc['prelude'] = {'world': prelude_spec(w, rng), 'seed': rng.randrange(1 << 30)}
    sc['steps'] = steps
    return sc


def execute(sc):
    out = Outcome()
    sim = env.Sim('c18', clock=sc['clock'], listing_seed=sc['listing_seed'])
    try:
        with sim:
            _execute(dict(sc), sim, out)
    finally:
        out.absorb_sim(sim)
        sim.cleanup()
    return out


def _read(p):
    if not os.path.exists(p):
        return None
    return pipe.read_fit_raw(p)[1]


def _synthetic_file(sc, sim, out):
    import math
    from astropy import units as u
    from sedfitter.extinction import Extinction
    from sedfitter.source import Source
    e = Extinction()
    e.wav = [0.1, 1., 10.] * u.micron
    e.chi = [3., 2., 1.] * u.cm ** 2 / u.g
    infos = []
    meta = None
    for k, r in enumerate(sc['records']):
        st = sc['steps'][r['step'] % len(sc['steps'])]
        nd = sum(1 for f in r['flags'] if f in (1, 4))
        th = float(st['threshold'])
        base = th * nd if st['criterion'] == 'cpd' else th
        best = {'at': base, 'below': math.nextafter(base, 0.0), 'above': math.nextafter(base, math.inf)}.get(r['kind'], base * (0.2 + 1.6 * r['u']))
        nw = len(r['flags'])
        s_ = Source()
        s_.name = 'syn%02d' % k
        s_.x = float(k)
        s_.y = 0.5
        s_.valid = list(r['flags'])
        s_.flux = [1.0 + j for j in range(nw)]
        s_.error = [0.5 if f in (2, 3) else 0.1 for f in r['flags']]
        info = pipe.FitInfo(s_)
        n = r['nfits']
        info.chi2 = np.array([best + 3.0 * j for j in range(n)], float)
        info.av = np.arange(n) + 0.5
        info.sc = np.arange(n) - 0.25
        info.model_id = np.arange(n)[::-1].copy()
        info.model_name = np.array(['m%03d' % j for j in range(n)])
        info.model_fluxes = None
        if meta is None:
            meta = info.meta
            meta.model_dir = 'synthetic'
            meta.filters = [{'name': 'F%d' % j, 'aperture_arcsec': 3.0, 'wav': (1.0 + j) * u.micron} for j in range(3)]
            meta.extinction_law = e
        info.meta = meta
        infos.append(info)
    outp = sim.path('fits.fitinfo')
    pipe.write_fit_raw(outp, infos)         # the input of filter_output must not depend on the writer it uses itself
    out.probe('synthetic_threshold_adjacent')
    return None, None, outp, pipe.read_fit_raw(outp)[1]


def _execute(sc, sim, out):
    from sedfitter import filter_output
    if sc.get('family') == 'synthetic':
        fw = _synthetic_file(sc, sim, out)
        sc = dict(sc, world={'format': 0})
    else:
        fw = pipe.fitted_world(sim, sc, out, sel=sc['fit_sel'], output_convolved=sc['output_convolved'], raw_fallback=True)
    if fw is None:
        return
    W, d, outp, recs = fw
    if any(len(r.chi2) == 0 for r in recs):
        out.discarded = 'record-with-zero-fits'
        return
    trace = [sc['world']['format'], len(recs)]
    files = {'fit': outp}
    last_explicit = None
    auto_seen = set()
    auto_names = {}
    mixed_auto = {}
    for i, st in enumerate(sc['steps']):
        inp = files.get(st['input'])
        if inp is None or not os.path.exists(inp) or os.path.getsize(inp) == 0:
            break
        r = pipe.call(pipe.read_fit_raw, inp)
        if r[0] != 'ok':
            raise env.HarnessError('cannot read split input')
        inrecs = r[1][1]
        IN = [canon_record(x, meta=True) for x in inrecs]
        best = [float(np.asarray(getattr(x.chi2, 'value', x.chi2), float)[0]) for x in inrecs]
        nds = [n_data_of(x.source.valid) for x in inrecs]
        q = [b if st['criterion'] == 'chi' else b / n for b, n in zip(best, nds)]
        th = st['threshold']
        th_obj = th
        # the threshold may be handed over as any real number type (same value): python int, numpy integer, float32
        tt = st.get('thr_type', 'float')
        if tt in ('int', 'i64') and 1 <= th < 9e18:
            th = float(int(th))
            th_obj = int(th) if tt == 'int' else np.int64(int(th))
            out.probe('threshold_not_a_python_float')
        elif tt == 'f32' and 1e-30 < abs(th) < 1e38:
            th_obj = np.float32(th)
            th = float(th_obj)
            out.probe('threshold_not_a_python_float')
        elif tt == 'f64':
            th_obj = np.float64(th)
        if sc.get('family') == 'synthetic':
            # values one ulp from the boundary ARE judged, but only where exact rational arithmetic and the plain float
            # quotient agree on which side of the threshold the quantity lies (and it is not equal to it)
            from fractions import Fraction
            undecided = False
            for b_, n_, v_ in zip(best, nds, q):
                ex = Fraction(b_) / n_ if st['criterion'] == 'cpd' else Fraction(b_)
                if ex == Fraction(th) or v_ == th or ((ex < Fraction(th)) != (v_ < th)):
                    undecided = True
            if undecided:
                out.probe('float_vs_exact_undecided_skipped')
                break
        elif any(v == th or (np.isfinite(v) and abs(v - th) <= 1e-12 * abs(th)) for v in q):
            out.probe('equal_threshold_skipped')
            break
        if any(b >= 1e30 for b in best):
            out.probe('best_chi2_ge_1e30')
        channel = st['channel']
        naming = st['naming'] if channel == 'path' else 'explicit'
        arg = inp if channel == 'path' else pipe.read_fit_sed(inp)
        if channel == 'list':
            out.probe('channel_list')
        here = os.path.dirname(inp)            # automatic names are made next to the input
        before = set(os.listdir(here))
        before_bytes = env.real_open(inp, 'rb').read()
        kw = {st['criterion']: th_obj}
        if naming == 'explicit':
            style = st.get('name_style', 'plain')
            if style == 'auto_in_name':
                # explicit names may contain any word, also 'auto', 'good' or 'bad'
                g, b = sim.path('automatic%d_keep.fitinfo' % i), sim.path('semiauto%d_bad_ones' % i)
            elif style == 'auto_dir':
                os.makedirs(sim.path('autofit'), exist_ok=True)
                g, b = sim.path('autofit', 'g%d' % i), sim.path('autofit', 'b%d' % i)
            elif style == 'swapped_words':
                g, b = sim.path('bad%d_rejected_not.sel' % i), sim.path('good%d_rejected.sel' % i)
            elif style == 'next_to_input':
                g, b = inp + '_good_sel', inp + '_bad_sel'
            else:
                g, b = sim.path('split%d.good' % i), sim.path('split%d.bad' % i)
            if style != 'plain':
                out.probe('explicit_names_' + style)
            if st.get('reuse_names') and last_explicit is not None and inp not in last_explicit:
                g, b = last_explicit
                out.probe('output_names_reused')
            last_explicit = (g, b)
            mixed = st.get('one_auto') if channel == 'path' else None
            if mixed == 'bad':
                # one output named explicitly, the other left to the automatic name
                r = pipe.call(filter_output, arg, output_good=g, **kw)
            elif mixed == 'good':
                r = pipe.call(filter_output, arg, output_bad=b, **kw)
            else:
                r = pipe.call(filter_output, arg, output_good=g, output_bad=b, **kw)
            if mixed and r[0] == 'ok':
                out.probe('one_name_explicit_one_automatic')
                cand = [n_ for n_ in sorted(set(os.listdir(here)) - before - {'_tmp'}) if n_.endswith(mixed) and os.path.join(here, n_) not in (g, b)]
                if (inp, mixed) in mixed_auto:
                    cand = [os.path.basename(mixed_auto[(inp, mixed)])]
                elif inp in auto_seen:
                    cand = [os.path.basename(auto_names[inp][0 if mixed == 'good' else 1])]
                if len(cand) != 1:
                    out.violate('two-files', 'output_%s given, the other left automatic: automatic naming produced %s' % ('good' if mixed == 'bad' else 'bad', cand))
                    break
                mixed_auto[(inp, mixed)] = os.path.join(here, cand[0])
                if mixed == 'bad':
                    b = mixed_auto[(inp, mixed)]
                else:
                    g = mixed_auto[(inp, mixed)]
                last_explicit = None
        else:
            out.probe('auto_names')
            if st.get('auto_as') == 'runtime':
                # the documented value 'auto' read from a config file / command line: equal to, but not the same object as, the literal
                kw = dict(kw, output_good=''.join(['au', 'to']), output_bad='AUTO'.lower())
            r = pipe.call(filter_output, arg, **kw)
        if r[0] != 'ok':
            out.violate('split-failed', 'filter_output raised %s: %s' % (pipe.exc_name(r), r[1]), key='%s/%s@%s' % (channel, pipe.exc_name(r), pipe.where(r[1]) if r[0] == 'exc' else ''))
            break
        new = sorted(set(os.listdir(here)) - before - {'_tmp'})
        if naming == 'auto':
            if inp in auto_seen:
                # the same input was split with automatic names before: the outputs replace the earlier ones
                new = sorted(os.path.basename(x) for x in auto_names[inp])
                out.probe('output_names_reused')
            # (an automatic name may already be there from a run that left only one of the two names automatic)
            new = sorted(set(new) | set(os.path.basename(p_) for (i_, m_), p_ in mixed_auto.items() if i_ == inp))
            new = [n_ for n_ in new if n_.endswith('good') or n_.endswith('bad')]
            if len(new) != 2:
                out.violate('two-files', 'automatic naming produced %s' % new)
                break
            contents = {}
            for nme in new:
                rr = pipe.call(_read, os.path.join(here, nme))
                if rr[0] != 'ok':
                    out.violate('output-unreadable', '%s: %s' % (nme, pipe.exc_name(rr)))
                    break
                contents[nme] = [canon_record(x, meta=True) for x in rr[1]]
            if out.violations:
                break
            # identify good/bad by the documented suffixes if present, else by content
            gname = [n_ for n_ in new if n_.endswith('good')]
            bname = [n_ for n_ in new if n_.endswith('bad')]
            if len(gname) != 1 or len(bname) != 1:
                out.violate('two-files', 'cannot tell the good from the bad file among %s' % new)
                break
            g, b = os.path.join(here, gname[0]), os.path.join(here, bname[0])
            auto_seen.add(inp)
            auto_names[inp] = (g, b)
        rg = pipe.call(_read, g)
        rb = pipe.call(_read, b)
        if rg[0] != 'ok' or rb[0] != 'ok' or rg[1] is None or rb[1] is None:
            out.violate('output-unreadable', 'good: %s bad: %s' % (pipe.exc_name(rg) or ('missing' if rg[1] is None else 'ok'), pipe.exc_name(rb) or ('missing' if rb[1] is None else 'ok')))
            break
        G = [canon_record(x, meta=True) for x in rg[1]]
        B = [canon_record(x, meta=True) for x in rb[1]]
        expG = [c for c, v in zip(IN, q) if v < th]
        expB = [c for c, v in zip(IN, q) if not (v < th)]
        out.compared('split', len(IN))
        if G != expG or B != expB:
            names_in = [x.source.name for x in inrecs]
            def nm(lst):
                return [names_in[IN.index(c)] if c in IN else '<altered>' for c in lst]
            what = []
            if sorted(G + B) != sorted(IN):
                what.append('union of outputs is not the input (good %s, bad %s, input %s)' % (nm(G), nm(B), names_in))
            elif set(G) & set(B):
                what.append('a record is in both files')
            else:
                what.append('membership/order wrong: good %s expected %s; bad %s expected %s' % (nm(G), nm(expG), nm(B), nm(expB)))
            out.violate('split', '%s=%r via %s: %s' % (st['criterion'], th, channel, what[0]), key=st['criterion'])
            break
        if env.real_open(inp, 'rb').read() != before_bytes:
            out.violate('input-changed', 'filter_output modified its input file')
            break
        out.probe('good_empty' if not G else ('bad_empty' if not B else 'both_nonempty'))
        if i > 0:
            out.probe('second_split')
        files = {'fit': outp, 'good': g, 'bad': b}
        trace.append((st['criterion'], naming, channel, len(G), len(B)))
    out.trace = trace


def lowerings(sc, viol=None):
    if sc.get('family') == 'synthetic':
        for i in range(len(sc['records'])):
            if len(sc['records']) > 1:
                yield dict(sc, records=sc['records'][:i] + sc['records'][i + 1:])
        for i, st in enumerate(sc['steps']):
            for key, val in (('channel', 'path'), ('naming', 'explicit')):
                if st[key] != val:
                    yield dict(sc, steps=sc['steps'][:i] + [dict(st, **{key: val})] + sc['steps'][i + 1:])
        return
    if sc.get('prelude'):
        yield dict(sc, prelude=None)
    for i in range(len(sc['sources'])):
        if len(sc['sources']) > 1:
            yield dict(sc, sources=sc['sources'][:i] + sc['sources'][i + 1:])
    for i, st in enumerate(sc['steps']):
        for key, val in (('channel', 'path'), ('naming', 'explicit')):
            if st[key] != val:
                yield dict(sc, steps=sc['steps'][:i] + [dict(st, **{key: val})] + sc['steps'][i + 1:])
    if sc['fit_sel'] != ['A', 0]:
        yield dict(sc, fit_sel=['A', 0])
    if sc['output_convolved']:
        yield dict(sc, output_convolved=False)
    if sc['clock'].get('kind') != 'steady':
        yield dict(sc, clock={'kind': 'steady'})
    w = sc['world']
    if w['n_models'] > 1:
        w2 = dict(w, n_models=1, mixed=None)
        if w2.get('asc_per_file') is not None:
            w2['asc_per_file'] = w2['asc_per_file'][:1]
        yield dict(sc, world=w2)
    for key, val in (('ext_n', 3), ('dtype', 'f8'), ('asc_per_file', None), ('apdep', False)):
        if w.get(key) != val and key != 'apdep':
            yield dict(sc, world=dict(w, **{key: val}))
