"""C10 - fit() writes one faithful record per eligible source; results survive being passed on.

Writer runs (data stream, output stream, clock, prompt, crash/ENOSPC + restart), an object-interface twin, and
consumer histories on shared result objects.
"""
import os
import random

from .. import env, pipe
from ..author import World, gen_world, gen_source, source_line
from ..canon import canon_record, canon_meta, describe_diff
from ..ref import n_data_of
from ..runner import Outcome
from . import C19 as _c19

ID = 'C10'
LEVEL = 'exploration'
RULE = ('Seeded scenarios: a world (either package format, aperture-dependent or not), a data stream of 1..12 lines '
        'mixing eligible/ineligible sources with optional trailing short lines, n_data_min, selector, stored fluxes, '
        'path or simulated reader, clock profile, optional pre-existing output + prompt, optional crash/ENOSPC at a byte '
        'offset followed by a restart, then up to 3 post-processing calls through one channel (path / one object / list). '
        'Non-trivial = at least one record compared with the twin; distinct = distinct abstract traces (format, mode, '
        'stream, clock kind, pre-existing output, fault kind+region, restart reply, #records, zero-fit record present, '
        'per step (consumer, channel, selector form, outcome class)).')
ASSUMPTIONS = ['the object interface (Fitter.fit + keep) is the reference for record contents (its numerics are C01-C04, not claimed)',
               'bit-exact comparison is made only between two executions of the same code path in the same process',
               'a zero-byte output (no eligible source) is not generated: the quantifier excludes it',
               'filter_output may raise on a record with zero fits, but then must raise the same class on every channel']
PROBES = ['zero_fit_record_reached_consumer', 'ineligible_line_skipped', 'short_line_ended_input',
          'preexisting_output_replaced', 'restart_after_crash', 'restart_after_enospc', 'prompt_n_abort', 'channel_list', 'channel_obj',
          'channel_path', 'nan_result_record', 'crash_inside_metadata', 'no_final_newline', 'prelude_epoch', 'channel_fresh', 'intruder_fit', 'manual_source_edited_in_place', 'manual_same_source_object_written_again', 'same_name_on_two_eligible_lines', 'plot_only_some_sources', 'intruder_read_own_fit_file']


def budgets(tier):
    if tier == 'quick':
        return {'runs': 2400, 'max_wall': 120, 'chunk': 10}
    return {'runs': 20000, 'max_wall': 1500, 'chunk': 10}


def _generate_manual(rng, tier):
    """An interactive user writes the file: Fitter.fit + FitInfoFile.write in a loop over a few Source OBJECTS that are
    re-used and edited in place between fits (leave-one-band-out, rescaled copies, renamed sources)."""
    w = gen_world(rng, n_models=(1, 6), n_wav=(5, 14), n_filters=(2, 4), n_ap=(2, 4), n_par=(1, 1), allow_gz=False, allow_subdir=False)
    w['ext_n'] = rng.choice([3, 8])
    nf = len(w['filters'])
    pool = [gen_source(rng, nf, 'obj%d' % i, min_fit=1) for i in range(rng.randint(1, 3))]
    steps = []
    for _ in range(rng.randint(2, 7)):
        if rng.random() < 0.4:
            steps.append({'op': 'edit', 'src': rng.randrange(len(pool)), 'kind': rng.choice(['scale', 'flag', 'error', 'one_flux', 'rename']),
                          'k': rng.randrange(nf), 'c': float('%.3g' % (10 ** rng.uniform(-1, 1))), 'flag': rng.choice([0, 1, 9])})
        else:
            steps.append({'op': 'fit_write', 'src': rng.randrange(len(pool)), 'sel': pipe.gen_selector(rng, w['n_models']), 'fluxes': rng.random() < 0.5})
    if not any(st['op'] == 'fit_write' for st in steps):
        steps.append({'op': 'fit_write', 'src': 0, 'sel': ['A', 0], 'fluxes': False})
    return {'family': 'manual', 'world': w, 'pool': pool, 'steps': steps, 'memmap': rng.random() < 0.5, 'clock': {'kind': 'steady'},
            'listing_seed': rng.randrange(1 << 30), 'theta_seed': rng.randrange(1 << 30),
            'av_range': [0.0, round(rng.uniform(2, 30), 2)], 'drange': [1.0, rng.choice([1.0, 2.0])]}


def generate(rng, tier, idx):
    if rng.random() < 0.12:
        return _generate_manual(rng, tier)
    w = gen_world(rng, n_models=(1, 6), n_wav=(5, 14), n_filters=(1, 4), n_ap=(2, 4), n_par=(1, 2), allow_zero_band=True)
    w['ext_n'] = rng.choice([3, 8, 40])
    if rng.random() < 0.03:
        # a grid with more models than any plausible internal block size (cube format keeps this cheap)
        w.update(format=2, n_models=rng.choice([1100, 2100]), n_wav=6, asc_per_file=None, mixed=None, zero_band=None, gz=False, subdir=0)
        w['flux_unit'] = 'mJy' if w['flux_unit'] not in ('mJy', 'Jy', 'MJY', 'MJy', 'uJy') else w['flux_unit']
    nf = len(w['filters'])
    nsrc = rng.randint(1, 12) if rng.random() < 0.5 else rng.randint(1, 4)
    if rng.random() < (0.03 if tier == 'thorough' else 0.004):
        nsrc = rng.choice([101, 130])          # a long catalogue: anything that depends on the NUMBER of sources seen so far
    sources = [gen_source(rng, nf, 's%02d' % i) for i in range(nsrc)]
    if rng.random() < 0.3:
        # catalogue-style designations: mixed case, signs, dots, one far longer than the 30 characters of Source.to_ascii
        pool_ = ['J0534-0523', 'IRAS_05327+3404', 'Sz-19b', 'src.12', 'HD_37903', 'V*_FU_Ori', '2MASS_J05352184-0546085_epoch2_reprocessed',
                 'x', 'NGC2264-IRS1', 'obj_%d' % rng.randrange(1000), 'Ab', 'aB', '\u03b7_Car', 'LkH\u03b1_101']
        rng.shuffle(pool_)
        for i_, s_ in enumerate(sources):
            s_['name'] = pool_[i_] if i_ < len(pool_) else '%s_%d' % (pool_[i_ % len(pool_)], i_)
    if nsrc > 1 and rng.random() < 0.3:
        # a catalogue may list the same name on several lines (two epochs of one object): each LINE is a source
        for _ in range(rng.randint(1, 3)):
            i, j = sorted(rng.sample(range(nsrc), 2))
            sources[j]['name'] = sources[i]['name']
    nd = [n_data_of(s['valid']) for s in sources]
    n_data_min = rng.randint(0, min(nf + 1, max(nd)))
    # blank line(s) at the very end of the catalogue only: what fit() does with a line that is not a source (stop there,
    # skip it, complain) is not part of the property, so no source line follows one and no malformed line is generated
    tail = {'final_newline': rng.random() < 0.75, 'terminator': rng.choice([None, None, '', '   ']), 'after': 0}
    sc = {'world': w, 'av_range': [0.0, round(rng.uniform(2, 30), 2)],
          'drange': [1.0, rng.choice([1.0, 1.5, 2.0])],
          'n_data_min': n_data_min, 'sel': pipe.gen_selector(rng, w['n_models']),
          'output_convolved': rng.random() < 0.5,
          'stream': rng.choice(['path', 'reader']), 'clock': pipe.gen_clock(rng),
          'listing_seed': rng.randrange(1 << 30), 'theta_seed': rng.randrange(1 << 30),
          'sources': sources, 'tail': tail,
          'after_sources': [gen_source(rng, nf, 'late%d' % i, flags=(1,), min_fit=1) for i in range(tail['after'])],
          'preexisting': rng.choice([None, None, None, 'garbage', 'empty', 'old', 'old']),
          'fault': None, 'restart_reply': 'y', 'remove_resolved': w['apdep'] and rng.random() < 0.3}
    if rng.random() < 0.4:
        sc['fault'] = {'kind': rng.choice(['crash', 'crash', 'crash', 'enospc']),
                       'where': rng.choice(['frac', 'boundary', 'meta']), 'frac': round(rng.random(), 4),
                       'delta': rng.randint(-2, 2), 'pick': rng.randrange(100)}
        sc['restart_reply'] = 'y' if rng.random() < 0.8 else rng.choice(['n', '', 'yes', 'Y', 'no'])
    steps = []
    channel = rng.choice(['path', 'list', 'list', 'obj', 'fresh', 'fresh'])
    sc['intruder'] = rng.random() < 0.4     # another user fits against ANOTHER package in the same process before the consumers run
    for _ in range(rng.randint(0, 3)):
        steps.append({'op': rng.choice(pipe.CONSUMERS), 'sel': pipe.gen_selector(rng, w['n_models']),
                      'criterion': rng.choice(['chi', 'cpd']), 'threshold': float('%.3g' % (10 ** rng.uniform(-1, 5))),
                      # non-default options of the consumers (legal values; must not change what the channels agree on)
                      'show_convolved': rng.random() < 0.5, 'plot_mode': rng.choice(['A', 'A', 'I']), 'plot_max': rng.choice([None, None, 1, 3]),
                      'memmap': rng.random() < 0.7, 'additional': rng.random() < 0.3, 'header': rng.random() < 0.8,
                      # plot(): only some of the sources, fixed axis ranges, labels off
                      'plot_sources_mask': rng.choice([None, None, rng.randrange(1, 1 << 12)]), 'manual_axes': rng.random() < 0.3,
                      'plot_name': rng.random() < 0.8, 'plot_info': rng.random() < 0.8})
    if rng.random() < 0.3:
        from ..author import prelude_spec
        sc['prelude'] = {'world': prelude_spec(w, rng), 'seed': rng.randrange(1 << 30), 'leftover_gz': rng.random() < 0.4}
    sc['channel'] = channel
    sc['steps'] = steps
    return sc


def _lines(sc):
    lines = [source_line(s) for s in sc['sources']]
    expected = list(sc['sources'])
    t = sc['tail']
    if t['terminator'] is not None:
        lines.append(t['terminator'])
        lines += [source_line(s) for s in sc['after_sources']]
    text = '\n'.join(lines)
    if t['final_newline'] or t['terminator'] is not None:
        text += '\n'
    return text, expected


def execute(sc):
    out = Outcome()
    sim = env.Sim('c10', clock=sc['clock'], listing_seed=sc['listing_seed'])
    try:
        with sim:
            _execute(sc, sim, out)
    finally:
        out.absorb_sim(sim)
        sim.cleanup()
    return out


def _writer(sc, sim, W, d, text, outp):
    names, ap = pipe.filter_args(W, sc)
    if sc['stream'] == 'path':
        data = sim.path('data.txt')
        with env.real_open(data, 'w') as f:
            f.write(text)
        src = data
    else:
        src = env.SimReader(sim, text)
    return pipe.call(pipe.fit, src, names, ap, d, outp, n_data_min=sc['n_data_min'], output_format=pipe.sel_arg(sc['sel']),
                     output_convolved=sc['output_convolved'], remove_resolved=bool(sc.get('remove_resolved')), **pipe.fitter_kwargs(W, sc))


def _execute_manual(sc, sim, out):
    from ..author import make_source
    from .C11 import _apply_edit
    W = World(sc['world'])
    rng = random.Random(sc['theta_seed'])
    sc = dict(sc, theta=pipe.theta_for(W, rng, len(W.fspec), dmin=sc['drange'][0]))
    d = W.write(sim.path('pkg'))
    r = pipe.call(pipe.convolve_model_dir, d, W.filters())
    if r[0] != 'ok':
        out.discarded = 'setup-convolve:' + pipe.exc_name(r)
        return
    names, ap = pipe.filter_args(W, sc)
    rf = pipe.call(pipe.Fitter, names, ap, d, use_memmap=sc['memmap'], **pipe.fitter_kwargs(W, sc))
    if rf[0] != 'ok':
        out.discarded = 'setup-fitter:' + pipe.exc_name(rf)
        return
    pool = [make_source(s0) for s0 in sc['pool']]
    outp = sim.path('manual.fitinfo')
    f = pipe.FitInfoFile(outp, 'w')
    written = []
    shape = []
    for k, st in enumerate(sc['steps']):
        src = pool[st['src']]
        if st['op'] == 'edit':
            if st['kind'] == 'rename':
                src.name = src.name + '_v%d' % k
            else:
                _apply_edit(src, st)
            out.probe('manual_source_edited_in_place')
            shape.append(('edit', st['kind']))
            continue
        ri = pipe.call(rf[1].fit, src)
        if ri[0] != 'ok':
            out.discarded = 'setup-fit:' + pipe.exc_name(ri)
            return
        info = ri[1]
        if not st['fluxes']:
            info.model_fluxes = None
        info.keep(pipe.sel_arg(st['sel']))
        written.append(canon_record(info, meta=True))          # what is handed to the writer, at the moment it is written
        rw = pipe.call(f.write, info)
        if rw[0] != 'ok':
            out.violate('writer-failed', 'FitInfoFile.write raised %s: %s' % (pipe.exc_name(rw), rw[1]), key='write/%s' % pipe.exc_name(rw))
            return
        if any(x.get('src') == st['src'] and x['op'] == 'fit_write' for x in sc['steps'][:k]):
            out.probe('manual_same_source_object_written_again')
        shape.append(('write', st['src'], st['sel'][0]))
    pipe.call(f.close)
    for label, reader in (('raw pickle stream', lambda: pipe.read_fit_raw(outp)[1]), ('FitInfoFile', lambda: pipe.read_fit_sed(outp))):
        rr = pipe.call(reader)
        out.compared('manual-file-vs-written', len(written))
        if rr[0] != 'ok':
            out.violate('reader-failed', 'reading the file (%s) raised %s' % (label, pipe.exc_name(rr)), key='manual/%s' % pipe.exc_name(rr))
            return
        try:
            got = [canon_record(x, meta=True) for x in rr[1]]
        except Exception as e:
            out.violate('file-record-malformed', '%s: %s' % (type(e).__name__, e))
            return
        if len(got) != len(written):
            out.violate('record-count', 'file holds %d records, %d were written (%s)' % (len(got), len(written), label))
            return
        for i, (a, b) in enumerate(zip(got, written)):
            if a != b:
                out.violate('reader-differs', 'record %d read back (%s) differs from what was written in %s' % (i, label, describe_diff(a, b)), key='manual')
                return
    out.trace = ['manual', sc['world']['format'], sc['memmap'], tuple(shape)]


def _execute(sc, sim, out):
    if sc.get('family') == 'manual':
        return _execute_manual(sc, sim, out)
    W = World(sc['world'])
    rng = random.Random(sc['theta_seed'])
    sc = dict(sc, theta=pipe.theta_for(W, rng, len(W.fspec), dmin=sc['drange'][0]))
    if sc.get('prelude'):
        pipe.run_prelude(sim, sc, out, d=sim.path('pkg'))
    d = W.write(sim.path('pkg'), keep_convolved=bool(sc.get('prelude') and sc['prelude'].get('leftover_gz')))
    r = pipe.call(pipe.convolve_model_dir, d, W.filters())
    if r[0] != 'ok':
        out.discarded = 'setup-convolve:' + pipe.exc_name(r)
        return
    text, expected = _lines(sc)
    eligible = [s for s in expected if n_data_of(s['valid']) >= sc['n_data_min']]
    if not eligible:
        out.discarded = 'no-eligible-source'
        return
    out.probe('ineligible_line_skipped', len(expected) - len(eligible))
    if len(set(s_['name'] for s_ in eligible)) < len(eligible):
        out.probe('same_name_on_two_eligible_lines')
    if sc['tail']['terminator'] is not None:
        out.probe('short_line_ended_input')
        out.probe('lines_after_terminator_ignored', len(sc['after_sources']))
    if not sc['tail']['final_newline'] and sc['tail']['terminator'] is None:
        out.probe('no_final_newline')
    # the object-interface twin
    tw = pipe.call(pipe.twin_records, W, d, sc, [source_line(s) for s in expected], specs=expected)
    if tw[0] != 'ok':
        out.discarded = 'setup-twin:' + pipe.exc_name(tw)
        return
    twin = tw[1]
    T = [canon_record(x) for x in twin]
    TM = [canon_record(x, meta=True) for x in twin]
    if [x.source.name for x in twin] != [s['name'] for s in eligible]:
        out.violate('object-interface-eligibility', 'twin fitted %s, expected %s' % ([x.source.name for x in twin], [s['name'] for s in eligible]))
        return
    outp = sim.path('out.fitinfo')
    trace = [sc['world']['format'], sc['world']['apdep'], sc['stream'], sc['clock']['kind'], sc['preexisting']]
    if sc['preexisting'] == 'old':
        # a complete, valid fit file of an earlier run (other sources, other selector) is in the way
        old_sc = dict(sc, sel=['N', 1], n_data_min=0, output_convolved=not sc['output_convolved'], fault=None, stream='reader')
        old_text = ''.join(source_line(dict(s_, name='old_' + s_['name'])) + '\n' for s_ in reversed(expected))
        ro = _writer(old_sc, sim, W, d, old_text, outp)
        if ro[0] != 'ok':
            out.discarded = 'setup-old-output:' + pipe.exc_name(ro)
            return
        sim.prompts.append('y')
    elif sc['preexisting'] is not None:
        with env.real_open(outp, 'wb') as f:
            f.write(b'' if sc['preexisting'] == 'empty' else b'\x80\x02garbage that is not a fit file')
        sim.prompts.append('y')
    # ---- writer, possibly with a fault and a restart
    flt = sc['fault']
    if flt is not None:
        # need the fault-free layout to place the fault: run once cleanly in a side file
        side = sim.path('side.fitinfo')
        sim.reset_ordinals()
        n0 = len(sim.events)
        rs = _writer(sc, sim, W, d, text, side)
        if rs[0] != 'ok':
            out.violate('writer-failed', 'fit() raised %s' % pipe.exc_name(rs), key='fit/%s@%s' % (pipe.exc_name(rs), pipe.where(rs[1])))
            return
        sizes = [ev[3] for ev in sim.events[n0:] if ev[0] == 'write' and ev[2] == sim.token(side)]
        cum = []
        t = 0
        for s in sizes:
            t += s
            cum.append(t)
        L = os.path.getsize(side)
        if flt['where'] == 'frac' or not cum:
            at = min(L - 1, int(flt['frac'] * L))
        elif flt['where'] == 'meta':
            at = min(L - 1, max(0, int(flt['frac'] * cum[min(2, len(cum) - 1)])))
        else:
            at = min(L - 1, max(0, cum[flt['pick'] % len(cum)] + flt['delta']))
        region = 'meta' if (cum and at < cum[min(2, len(cum) - 1)]) else 'rec'
        if region == 'meta':
            out.probe('crash_inside_metadata')
        sim.arm('byte', flt['kind'], at, target=sim.rel(outp))
        r1 = _writer(sc, sim, W, d, text, outp)
        sim.faults = []
        if r1[0] == 'ok':
            out.probe('open_seam_bypassed')      # output not opened through the seam: the run simply completed
        elif r1[0] not in ('crash', 'exc'):
            raise env.HarnessError('faulted writer ended with %r' % (r1,))
        if r1[0] == 'exc' and not isinstance(r1[1], OSError):
            out.violate('writer-failed', 'fit() raised %s before the fault' % pipe.exc_name(r1), key='fit/%s@%s' % (pipe.exc_name(r1), pipe.where(r1[1])))
            return
        # what is left behind must never read as a wrong record (C19's oracle, applied here to the live crash)
        rr = pipe.call(pipe.read_fit_sed, outp)
        if r1[0] != 'ok':
            _c19._judge(out, rr, TM, None, 'after %s at byte %d' % (flt['kind'], at), probes=False)
        trace += [flt['kind'], region, sc['restart_reply']]
        if out.violations:
            out.trace = trace
            return
        sim.prompts.append(sc['restart_reply'])
        r2 = _writer(sc, sim, W, d, text, outp)
        if r2[0] == 'exit':
            # the user declined to delete the left-over file: nothing is claimed about that case beyond C19's clause
            out.probe('prompt_n_abort')
            rr = pipe.call(pipe.read_fit_sed, outp)
            _c19._judge(out, rr, TM, None, 'after abort', probes=False)
            out.trace = trace
            return
        out.probe('restart_after_' + flt['kind'])
        res = r2
    else:
        res = _writer(sc, sim, W, d, text, outp)
        trace += [None, None, None]
    if res[0] != 'ok':
        out.violate('writer-failed', 'fit() ended with %s: %s' % (res[0], res[1]), key='fit/%s@%s' % (pipe.exc_name(res), pipe.where(res[1]) if res[0] == 'exc' else ''))
        out.trace = trace
        return
    if sc['preexisting'] is not None:
        out.probe('preexisting_output_replaced')
    # ---- oracle 1: the file, read with the harness's pickle loop
    rawm = pipe.call(pipe.read_fit_raw, outp)
    if rawm[0] != 'ok':
        out.violate('file-unreadable', 'complete output cannot be unpickled: %s' % pipe.exc_name(rawm))
        return
    meta, recs, _offs = rawm[1]
    got = []
    for x in recs:
        try:
            got.append(canon_record(x))
        except Exception as e:
            out.violate('file-record-malformed', '%s: %s' % (type(e).__name__, e))
            return
    out.compared('file-vs-twin', len(got))
    if len(got) != len(T):
        out.violate('record-count', 'file holds %d records for %d eligible lines (%s)' % (len(got), len(T), [getattr(getattr(x, 'source', None), 'name', '?') for x in recs]))
    else:
        for i, (a, b) in enumerate(zip(got, T)):
            if a != b:
                out.violate('record-differs-from-object-interface', 'record %d (%s) differs in %s' % (i, eligible[i]['name'], describe_diff(a, b)))
                break
    for i, x in enumerate(recs):
        mf = getattr(x, 'model_fluxes', None)
        out.compared('fluxes-presence')
        if sc['output_convolved']:
            if mf is None or len(mf) != len(x.chi2) or (len(mf) and mf.shape[1] != len(W.fspec)):
                out.violate('fluxes-presence', 'record %d: predicted fluxes requested but stored as %s for %d fits' % (
                    i, None if mf is None else getattr(mf, 'shape', '?'), len(x.chi2)))
                break
        elif mf is not None:
            out.violate('fluxes-presence', 'record %d: predicted fluxes stored although not requested' % i)
            break
    if meta is not None and twin:
        out.compared('metadata')
        if canon_meta(meta) != canon_meta(twin[0].meta):
            out.violate('metadata-differs', 'stored metadata differs from the run\'s')
        else:
            m = canon_meta(meta)
            exp_f = [(f['name'], float(t_), float(f['center'])) for f, t_ in zip(W.fspec, sc['theta'])]
            ok = os.path.realpath(m[0]) == os.path.realpath(d) and len(m[1]) == len(exp_f) and all(a[0] == b[0] and abs(a[1] - b[1]) <= 1e-9 * b[1] and abs(a[2] - b[2]) <= 1e-9 * b[2] for a, b in zip(m[1], exp_f))
            if not ok:
                out.violate('metadata-wrong', 'model_dir/filters in metadata are not those of the run: %r' % (m[:2],))
    if out.violations:
        out.trace = trace
        return
    # ---- oracle 2: sedfitter's reader
    rs = pipe.call(pipe.read_fit_sed, outp)
    out.compared('reader-vs-file', len(T))
    if rs[0] != 'ok':
        out.violate('reader-failed', 'FitInfoFile(path, "r") raised %s' % pipe.exc_name(rs), key='reader/%s' % pipe.exc_name(rs))
        return
    rd = [canon_record(x, meta=True) for x in rs[1]]
    if rd != TM:
        out.violate('reader-differs', 'records/metadata from FitInfoFile differ from what was written (%d vs %d records)' % (len(rd), len(TM)))
        return
    zero = any(len(x.chi2) == 0 for x in twin)
    import numpy as np
    if any(len(x.chi2) and not np.all(np.isfinite(np.asarray(x.chi2, float))) for x in twin):
        out.probe('nan_result_record')
    trace += [len(T), zero]
    # ---- oracle 5: consumer histories
    steps = sc['steps']
    channel = sc['channel']
    if channel == 'obj' and len(T) != 1:
        channel = 'list'
    if steps:
        if channel == 'fresh':
            objs = twin                       # results exactly as Fitter.fit + keep returned them (never pickled)
        else:
            objs = pipe.read_fit_sed(outp)
        objs_as_read = [canon_record(o, meta=True) for o in objs]
        if sc.get('intruder'):
            # a second simulated user in the same process: same model names and filters, another package directory
            from ..author import prelude_spec
            Wi = World(prelude_spec(sc['world'], random.Random(sc['theta_seed'] + 1)))
            di = Wi.write(sim.path('other_pkg'))
            if pipe.call(pipe.convolve_model_dir, di, Wi.filters())[0] == 'ok':
                names_i, ap_i = pipe.filter_args(Wi, sc)
                ri = pipe.call(pipe.Fitter, names_i, ap_i, di, **pipe.fitter_kwargs(Wi, sc))
                if ri[0] == 'ok':
                    from ..author import make_source
                    rj = pipe.call(ri[1].fit, make_source(eligible[0]))
                    out.probe('intruder_fit')
                    sim.fired('intruder_fit')
                    if rj[0] == 'ok':
                        # ... who also stores the result in a fit file of their own, reads it back and lists it
                        other = sim.path('other.fitinfo')
                        if pipe.call(pipe.write_fit_file, other, [rj[1]])[0] == 'ok':
                            pipe.call(pipe.read_fit_sed, other)
                            pipe.run_consumer(sim, 'wp', other, ('N', 2), 'intruder', {})
                            out.probe('intruder_read_own_fit_file')
            if [canon_record(o, meta=True) for o in objs] != objs_as_read:
                out.violate('caller-objects-changed', 'results read from the file (records or their metadata) changed while another user worked with another package and fit file')
                out.trace = trace
                return
        arg = outp if channel == 'path' else (objs if channel in ('list', 'fresh') else objs[0])
        out.probe('channel_' + channel)
        fbytes = env.real_open(outp, 'rb').read()
        for i, st in enumerate(steps):
            st = dict(st)
            st['show_convolved'] = bool(st.get('show_convolved')) and sc['output_convolved']   # needs stored predictions
            if st.get('additional'):
                st['additional_dict'] = {'ADDED': {nm: 1.5 + 0.25 * k for k, nm in enumerate(W.names)}}
            if st.get('plot_sources_mask') is not None and st['op'] == 'plot':
                uniq = sorted(set(s_['name'] for s_ in sc['sources']))
                st['plot_sources'] = [nm for k, nm in enumerate(uniq) if (st['plot_sources_mask'] >> k) & 1]
                out.probe('plot_only_some_sources')
            before = [canon_record(o, meta=True) for o in objs]
            ref = pipe.run_consumer(sim, st['op'], outp, st['sel'], 'ref', st)
            res = pipe.run_consumer(sim, st['op'], arg, st['sel'], 'chan', st)
            out.compared('consumer-step')
            if zero:
                out.probe('zero_fit_record_reached_consumer')
            oc = 'ok'
            must = st['op'] != 'fo' or not zero
            if ref[0] == 'exc' and must:
                out.violate('accept', '%s raised %s on a file (%s)' % (st['op'], ref[1], ref[2]), key='%s/path/%s' % (st['op'], ref[1]))
                oc = 'ref-exc'
            elif ref[0] != res[0] or (ref[0] == 'exc' and ref[1].split('@')[0] != res[1].split('@')[0]):
                out.violate('interchangeable', '%s: via %s -> %s, via file -> %s' % (st['op'], channel, res[:2] if res[0] == 'exc' else 'ok', ref[:2] if ref[0] == 'exc' else 'ok'),
                            key='%s/%s/%s' % (st['op'], channel, res[1] if res[0] == 'exc' else 'ok-vs-exc'))
                oc = 'differ'
            elif ref[0] == 'ok' and ref[1] != res[1]:
                out.violate('same-outputs', 'step %d %s%s via %s gives different output than via the file' % (i, st['op'], tuple(st['sel']), channel), key='%s/%s' % (st['op'], channel))
                oc = 'output-differs'
            elif ref[0] == 'exc':
                oc = 'both-exc'
            after = [canon_record(o, meta=True) for o in objs]
            if after != before and channel != 'path':
                out.violate('caller-objects-changed', '%s%s modified the result objects it was given (%s)' % (
                    st['op'], tuple(st['sel']), describe_diff(after[[k for k in range(len(after)) if after[k] != before[k]][0]], before[[k for k in range(len(after)) if after[k] != before[k]][0]])), key=st['op'])
            if env.real_open(outp, 'rb').read() != fbytes:
                out.violate('input-file-changed', '%s modified its input file' % st['op'], key=st['op'])
            trace.append((st['op'], channel, st['sel'][0], oc))
            if out.violations:
                break
    out.trace = trace


def repair(sc):
    if sc.get('family') == 'manual' and not any(st['op'] == 'fit_write' for st in sc['steps']):
        return None
    return sc


def lowerings(sc, viol=None):
    if sc.get('family') == 'manual':
        if sc['memmap']:
            yield dict(sc, memmap=False)
        for i, st in enumerate(sc['steps']):
            if st['op'] == 'fit_write' and (st['sel'] != ['A', 0] or st['fluxes']):
                yield dict(sc, steps=sc['steps'][:i] + [dict(st, sel=['A', 0], fluxes=False)] + sc['steps'][i + 1:])
        w = sc['world']
        if w['n_models'] > 1:
            w2 = dict(w, n_models=1, mixed=None, zero_band=None)
            if w2.get('asc_per_file') is not None:
                w2['asc_per_file'] = w2['asc_per_file'][:1]
            yield dict(sc, world=w2)
        return
    if sc.get('prelude'):
        yield dict(sc, prelude=None)
    if sc.get('intruder'):
        yield dict(sc, intruder=False)
    if sc.get('channel') not in ('path',):
        yield dict(sc, channel='list')
    if sc['fault'] is not None:
        yield dict(sc, fault=None, restart_reply='y')
    if sc['preexisting'] is not None:
        yield dict(sc, preexisting=None)
    if sc['tail']['terminator'] is not None or sc['after_sources']:
        yield dict(sc, tail=dict(sc['tail'], terminator=None, after=0), after_sources=[])
    if not sc['tail']['final_newline']:
        yield dict(sc, tail=dict(sc['tail'], final_newline=True))
    for i in range(len(sc['sources'])):
        if len(sc['sources']) > 1:
            yield dict(sc, sources=sc['sources'][:i] + sc['sources'][i + 1:])
    if sc['clock'].get('kind') != 'steady':
        yield dict(sc, clock={'kind': 'steady'})
    if sc['stream'] != 'path':
        yield dict(sc, stream='path')
    if sc['output_convolved']:
        yield dict(sc, output_convolved=False)
    if sc['sel'] != ['A', 0]:
        yield dict(sc, sel=['A', 0])
    if sc['n_data_min'] > 0:
        yield dict(sc, n_data_min=0)
    for i, st in enumerate(sc['steps']):
        if st['sel'] != ['N', 1]:
            yield dict(sc, steps=sc['steps'][:i] + [dict(st, sel=['N', 1])] + sc['steps'][i + 1:])
    w = sc['world']
    for key, lo in (('n_models', 1), ('n_models', 2), ('n_wav', 5), ('n_par', 1)):
        if w[key] > lo:
            w2 = dict(w, **{key: lo})
            if w2.get('asc_per_file') is not None:
                w2['asc_per_file'] = w2['asc_per_file'][:w2['n_models']]
            w2['mixed'] = None
            yield dict(sc, world=w2)
    for key, val in (('ext_n', 3), ('dtype', 'f8'), ('gz', False), ('subdir', 0), ('asc_per_file', None)):
        if w.get(key) != val:
            yield dict(sc, world=dict(w, **{key: val}))
    if len(w['filters']) > 2:
        yield dict(sc, world=dict(w, filters=w['filters'][:-1]), sources=[dict(s, valid=s['valid'][:-1], flux=s['flux'][:-1], error=s['error'][:-1]) for s in sc['sources']],
                   after_sources=[dict(s, valid=s['valid'][:-1], flux=s['flux'][:-1], error=s['error'][:-1]) for s in sc['after_sources']])
