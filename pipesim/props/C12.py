"""C12 - SED, cube and convolved-flux files read back exactly what was stored.

Storage-model shape: puts and gets against real files and an in-memory map, in any order, with overwrites by objects
of another shape, read knobs (order, unit, memmap), live memory-mapped readers across overwrites.  The statement is
fault-free, so no fault is injected; cells are matched by (model name, aperture value, wavelength value), not by index.
"""
import os

import numpy as np

from .. import env, pipe
from ..ref import nu_of
from ..runner import Outcome

ID = 'C12'
LEVEL = 'exploration'
UNITS = ['mJy', 'Jy', 'erg / (cm2 s)', 'erg / s']
NAME_POOL = ['aa_00', 'aa_01', 'Ab-2', 'x.3', 'model_0004', 'm5', 'm50', 'grid_c']
RULE = ('Seeded histories of 2..8 operations on a directory with <= 3 paths: put_sed / put_cube / put_conv (objects of 1..6 models, 1..5 '
        'apertures or none, 2..40 wavelengths ascending or descending, with/without uncertainties, four flux units; overwrite=True when the '
        'path is in use, usually with another shape), get_sed(order, stored unit), get_cube(order, memmap) + get_sed(name) for a stored name, '
        'get_conv, and reads through a cube object that was memory-mapped before the file was overwritten. Non-trivial = at least one get '
        'compared cell by cell; distinct = distinct (per step (op, kind, order, memmap, unit, asc, has_ap, has_unc, overwrite?)).')
ASSUMPTIONS = ['fault-free by statement: no crash / truncation is injected here', 'SED values are compared within 1e-12 relative (SED.read multiplies and divides by nu even when the unit is unchanged); cube and convolved files exactly',
               'for an SED written without apertures only the single row of values is required (apertures need not come back as None)']
PROBES = ['overwrite_other_shape', 'sed_asc_written', 'sed_desc_written', 'cube_no_unc', 'cube_no_apertures', 'cube_memmap_read', 'cube_get_sed',
          'read_order_wav', 'read_order_nu', 'unit_erg', 'unit_jy', 'conv_no_apertures', 'stale_memmap_reader', 'sed_no_apertures', 'gz_path', 'gz_sibling_present', 'read_in_other_unit', 'uncertainties_in_other_unit', 'cube_get_sed_twice', 'name_at_other_position_in_earlier_cube', 'apertures_not_increasing', 'axis_given_as_frequencies', 'axis_in_other_length_unit', 'same_object_written_twice', 'object_read_from_a_file_written_again']


def budgets(tier):
    if tier == 'quick':
        return {'runs': 9000, 'max_wall': 115, 'chunk': 25}
    return {'runs': 60000, 'max_wall': 1700, 'chunk': 25}


def _gen_obj(rng, kind):
    n_ap = rng.randint(1, 5)
    o = {'kind': kind, 'n_models': rng.randint(1, 6) if kind != 'sed' else 1, 'n_ap': n_ap, 'n_wav': rng.randint(2, 40) if kind != 'conv' else 1,
         'asc': rng.random() < 0.5, 'has_ap': True if n_ap > 1 else rng.random() < 0.5, 'has_unc': True if kind != 'cube' else rng.random() < 0.6,
         'unit': rng.choice(UNITS) if kind != 'conv' else 'mJy', 'seed': rng.randrange(1 << 30), 'dist': float('%.4g' % (10 ** rng.uniform(-1, 1)))}
    # uncertainties may be stored in another unit of the same family than the values (each extension carries its own unit)
    o['unc_unit'] = rng.choice(['mJy', 'Jy']) if (o['unit'] in ('mJy', 'Jy') and kind != 'conv' and rng.random() < 0.5) else o['unit']
    # the spectral axis may be handed over as wavelengths in any length unit or as frequencies in any frequency unit
    o['axis'] = rng.choice([None, None, None, 'Angstrom', 'm', 'Hz', 'GHz', 'THz'])
    o['decade'] = rng.choice([0, 0, 0, -12, -9, 30]) if kind != 'conv' else 0
    # the apertures of the object the user builds need not be in increasing order
    o['ap_order'] = rng.choice(['asc', 'asc', 'desc', 'shuffled'])
    if rng.random() < 0.7:
        # model names come from one small pool shared by every object of the history, in any order: two files (or two
        # generations of one path) then hold the same name at different positions
        o['names'] = rng.sample(NAME_POOL, o['n_models'])
    return o


def generate(rng, tier, idx):
    steps = []
    # a.fits and a.fits.gz may both exist in the directory: each must read back what was put under THAT name
    paths = rng.sample(['a.fits', 'a.fits.gz', 'b.fits', 'b.fits.gz', 'c.fits'], rng.randint(1, 4))
    stored = {}
    for _ in range(rng.randint(2, 8)):
        if not stored or rng.random() < 0.4:
            p = rng.choice(paths)
            kind = rng.choice(['sed', 'cube', 'cube', 'conv'])
            if p.endswith('.gz') or (p + '.gz') in paths:
                kind = rng.choice(['sed', 'sed', 'conv'])     # compressed files cannot be memory-mapped: keep cubes uncompressed
            st_ = {'op': 'put', 'path': p, 'obj': _gen_obj(rng, kind)}
            # the SAME object is sometimes written a second time, to another path (a backup copy)
            others = [q for q in paths if q != p and q.endswith('.gz') == p.endswith('.gz') and not (kind == 'cube' and ((q + '.gz') in paths))]
            if others and rng.random() < 0.25:
                st_['also_to'] = rng.choice(others)
                stored[st_['also_to']] = kind
            steps.append(st_)
            stored[p] = kind
        elif rng.random() < 0.15 and len(paths) > 1:
            # an object READ from one file is written to another path as it is (re-saving an existing grid)
            p = rng.choice(sorted(stored))
            others = [q for q in paths if q != p and not (stored[p] == 'cube' and (q.endswith('.gz') or (q + '.gz') in paths))]
            if others:
                q = rng.choice(others)
                steps.append({'op': 'copy', 'path': p, 'dst': q, 'order': rng.choice(['nu', 'wav']), 'memmap': rng.random() < 0.5})
                stored[q] = stored[p]
        else:
            p = rng.choice(sorted(stored))
            st = {'op': 'get', 'path': p, 'order': rng.choice(['nu', 'wav']), 'memmap': rng.random() < 0.5, 'pick': rng.randrange(100),
                  'keep_open': rng.random() < 0.3, 'read_unit': rng.choice([None, None] + UNITS)}
            steps.append(st)
    if rng.random() < 0.3:
        steps.append({'op': 'get_stale'})
    return {'steps': steps}


def repair(sc):
    stored = set()
    for st in sc['steps']:
        if st['op'] == 'put':
            stored.add(st['path'])
            if st.get('also_to'):
                stored.add(st['also_to'])
        elif st['op'] == 'copy':
            if st['path'] not in stored:
                return None
            stored.add(st['dst'])
        elif st['op'] == 'get' and st['path'] not in stored:
            return None
    return sc


def execute(sc):
    out = Outcome()
    sim = env.Sim('c12')
    try:
        with sim:
            _execute(sc, sim, out)
    finally:
        out.absorb_sim(sim)
        sim.cleanup()
    return out


class _Ref(object):
    def __init__(self, o):
        g = np.random.default_rng(o['seed'])
        nm, na, nw = o['n_models'], o['n_ap'], o['n_wav']
        w = np.sort(10 ** g.uniform(-1, 3, nw))
        while nw > 1 and np.min(w[1:] / w[:-1]) < 1.001:
            w = np.sort(10 ** g.uniform(-1, 3, nw))
        self.wav = w if o['asc'] else w[::-1].copy()
        self.aps = np.sort(10 ** g.uniform(1, 5, na)) if o['has_ap'] else None
        if not o['has_ap']:
            na = 1
        # (the magnitude depends on the unit: fluxes of 1e-12 erg/cm^2/s and luminosities of 1e33 erg/s are ordinary numbers)
        self.val = 10 ** g.uniform(-3, 3, (nm, na, nw)) * 10.0 ** o.get('decade', 0)
        self.unc = self.val * g.uniform(0.01, 0.1, self.val.shape) if o['has_unc'] else None
        self.names = ['%s%s_%02d' % ('abcdefghijklmnopqrstuvwxyz'[int(g.integers(0, 26))], 'abcdefghijklmnopqrstuvwxyz'[int(g.integers(0, 26))], i) for i in range(nm)]
        if o.get('names'):
            self.names = list(o['names'])[:nm]
        if self.aps is not None and len(self.aps) > 1 and o.get('ap_order', 'asc') != 'asc':
            pa = np.arange(len(self.aps))[::-1] if o['ap_order'] == 'desc' else np.random.default_rng([o['seed'], 7]).permutation(len(self.aps))
            self.aps = self.aps[pa]
            self.val = self.val[:, pa]
            self.unc = None if self.unc is None else self.unc[:, pa]
        self.o = o

    def ap_index(self, got):
        """positions in the stored aperture list of the apertures as read back (cells are keyed by aperture VALUE)"""
        if self.aps is None:
            return None if got is None else 'apertures present, none stored'
        if got is None:
            return 'apertures absent, stored %s' % (self.aps,)
        got = np.asarray(got, float)
        ia = [int(np.argmin(np.abs(self.aps - a))) for a in got]
        if len(got) != len(self.aps) or sorted(ia) != list(range(len(self.aps))) or not np.allclose(got, self.aps[ia], rtol=1e-12, atol=0):
            return 'apertures %s, stored %s' % (got, self.aps)
        return ia


def _unit(s):
    from astropy import units as u
    return {'mJy': u.mJy, 'Jy': u.Jy, 'erg / (cm2 s)': u.erg / u.cm ** 2 / u.s, 'erg / s': u.erg / u.s}[s]


def _put(path, R, overwrite, path2=None):
    from astropy import units as u
    from sedfitter.sed import SED, SEDCube
    from sedfitter.convolved_fluxes import ConvolvedFluxes
    o = R.o
    unit = _unit(o['unit'])
    ax = o.get('axis')
    if o['kind'] == 'sed':
        s = SED()
        s.name = R.names[0]
        s.distance = o['dist'] * u.kpc
        s.wav = R.wav * u.micron
        s.nu = s.wav.to(u.Hz, equivalencies=u.spectral())
        if ax in ('Angstrom', 'm'):
            s.wav = s.wav.to(u.Unit(ax))
        elif ax in ('GHz', 'THz'):
            s.nu = s.nu.to(u.Unit(ax))
        if R.aps is not None:
            s.apertures = R.aps * u.au
        s.flux = R.val[0] * unit
        s.error = R.unc[0] * _unit(o.get('unc_unit', o['unit']))
        s.write(path, overwrite=overwrite)
        if path2:
            s.write(path2, overwrite=True)
    elif o['kind'] == 'cube':
        c = SEDCube()
        c.names = np.array(R.names)
        c.distance = o['dist'] * u.kpc
        if ax in ('Hz', 'GHz', 'THz'):
            c.nu = (R.wav * u.micron).to(u.Unit(ax), equivalencies=u.spectral())
        elif ax in ('Angstrom', 'm'):
            c.wav = (R.wav * u.micron).to(u.Unit(ax))
        else:
            c.wav = R.wav * u.micron
        if R.aps is not None:
            c.apertures = R.aps * u.au
        c.val = R.val * unit
        if R.unc is not None:
            c.unc = R.unc * _unit(o.get('unc_unit', o['unit']))
        c.write(path, overwrite=overwrite)
        if path2:
            c.write(path2, overwrite=True)
    else:
        cf = ConvolvedFluxes(wavelength=float(R.wav[0]) * u.micron, model_names=np.array(R.names), apertures=(R.aps * u.au if R.aps is not None else None),
                             flux=R.val[:, :, 0] * u.mJy, error=R.unc[:, :, 0] * u.mJy)
        cf.write(path, overwrite=overwrite)
        if path2:
            cf.write(path2, overwrite=True)


def _match(w, ref_wav, tol):
    idx = [int(np.argmin(np.abs(ref_wav - x))) for x in w]
    ok = len(w) == len(ref_wav) and sorted(idx) == list(range(len(ref_wav))) and np.allclose(w, ref_wav[idx], rtol=tol, atol=0)
    return idx, ok


def _check_cube(r, R, order, out, what):
    from astropy import units as u
    w = r.wav.to(u.micron).value
    idx, ok = _match(w, R.wav, 1e-12 if R.o.get('axis') else 0)
    if not ok:
        return 'wavelengths read back %s, stored %s' % (w, R.wav)
    if len(w) > 1 and not (np.all(np.diff(w) > 0) if order == 'wav' else np.all(np.diff(w) < 0)):
        return 'spectral axis not sorted as order=%r: %s' % (order, w)
    if not np.allclose(r.nu.to(u.Hz).value * w, 299792458e6, rtol=1e-12):
        return 'frequencies do not belong to the wavelengths'
    if [str(x) for x in r.names] != R.names:
        return 'names %s, stored %s' % (list(r.names), R.names)
    ia = R.ap_index(None if r.apertures is None else r.apertures.to(u.au).value)
    if isinstance(ia, str):
        return ia
    if ia is None:
        ia = list(range(R.val.shape[1]))
    out.compared('cube-cells', int(R.val.size))
    if r.val.shape != R.val[:, ia][:, :, idx].shape or not np.array_equal(np.asarray(r.val.value, float), R.val[:, ia][:, :, idx]):
        return 'values differ from the stored cells (matched by model, aperture, wavelength)'
    if r.val.unit != _unit(R.o['unit']):
        return 'unit %s, stored %s' % (r.val.unit, R.o['unit'])
    if (r.unc is None) != (R.unc is None):
        return 'uncertainties %s, stored %s' % ('absent' if r.unc is None else 'present', 'absent' if R.unc is None else 'present')
    if R.unc is not None:
        uu = _unit(R.o.get('unc_unit', R.o['unit']))
        if not np.allclose(np.asarray(r.unc.to(uu).value, float), R.unc[:, ia][:, :, idx], rtol=1e-14, atol=0):
            return 'uncertainties differ from the stored cells (stored in %s, read back in %s)' % (uu, r.unc.unit)
    if abs(r.distance.to(u.kpc).value / R.o['dist'] - 1) > 1e-12:
        return 'distance %s, stored %s kpc' % (r.distance, R.o['dist'])
    return None


def _execute(sc, sim, out):
    from astropy import units as u
    from sedfitter.sed import SED, SEDCube
    from sedfitter.convolved_fluxes import ConvolvedFluxes
    store = {}
    seen_cubes = []
    open_cubes = []       # (cube object read with memmap, reference it was read from, order)
    trace = []
    for i, st in enumerate(sc['steps']):
        if st['op'] == 'put':
            p = sim.path(st['path'])
            R = _Ref(st['obj'])
            o = st['obj']
            over = st['path'] in store
            if over and (store[st['path']].o['kind'] != o['kind'] or store[st['path']].val.shape != R.val.shape):
                out.probe('overwrite_other_shape')
            r = pipe.call(_put, p, R, over, sim.path(st['also_to']) if st.get('also_to') else None)
            what = 'put %s (%s, %d models, %s apertures, %d wavelengths %s, unit %s%s)' % (st['path'], o['kind'], o['n_models'], o['n_ap'] if o['has_ap'] else 'no',
                                                                                            o['n_wav'], 'ascending' if o['asc'] else 'descending', o['unit'], '' if o['has_unc'] else ', no uncertainties')
            if r[0] != 'ok':
                out.violate('write-failed', '%s raised %s: %s' % (what, pipe.exc_name(r), r[1]), key='%s/%s@%s' % (o['kind'], pipe.exc_name(r), pipe.where(r[1]) if r[0] == 'exc' else ''))
                break
            store[st['path']] = R
            if st.get('also_to'):
                store[st['also_to']] = R
                out.probe('same_object_written_twice')
            if o.get('axis') in ('Hz', 'GHz', 'THz') and o['kind'] == 'cube':
                out.probe('axis_given_as_frequencies')
            if o.get('axis') in ('Angstrom', 'm'):
                out.probe('axis_in_other_length_unit')
            if R.aps is not None and len(R.aps) > 1 and np.any(np.diff(R.aps) < 0):
                out.probe('apertures_not_increasing')
            if st['path'].endswith('.gz'):
                out.probe('gz_path')
            if (st['path'] + '.gz') in store or st['path'][:-3] in store:
                out.probe('gz_sibling_present')
            if o['kind'] == 'sed':
                out.probe('sed_asc_written' if o['asc'] else 'sed_desc_written')
                if not o['has_ap']:
                    out.probe('sed_no_apertures')
            if o['kind'] == 'cube':
                if not o['has_unc']:
                    out.probe('cube_no_unc')
                if not o['has_ap']:
                    out.probe('cube_no_apertures')
            if o['kind'] == 'conv' and not o['has_ap']:
                out.probe('conv_no_apertures')
            if 'erg' in o['unit']:
                out.probe('unit_erg')
            if o.get('unc_unit', o['unit']) != o['unit']:
                out.probe('uncertainties_in_other_unit')
            if o['unit'] == 'Jy':
                out.probe('unit_jy')
            trace.append(('put', o['kind'], o['asc'], o['has_ap'], o['has_unc'], o['unit'], over))
            continue
        if st['op'] == 'copy':
            R = store[st['path']]
            src, dst = sim.path(st['path']), sim.path(st['dst'])
            kind = R.o['kind']

            def _copy():
                if kind == 'cube':
                    obj = SEDCube.read(src, order=st['order'], memmap=st['memmap'])
                elif kind == 'sed':
                    obj = SED.read(src, unit_flux=_unit(R.o['unit']), order=st['order'])
                else:
                    obj = ConvolvedFluxes.read(src)
                obj.write(dst, overwrite=True)
            r = pipe.call(_copy)
            if r[0] != 'ok':
                out.violate('write-failed', 'reading %s (%s) and writing the object to %s raised %s: %s' % (st['path'], kind, st['dst'], pipe.exc_name(r), r[1]),
                            key='copy/%s/%s@%s' % (kind, pipe.exc_name(r), pipe.where(r[1]) if r[0] == 'exc' else ''))
                break
            store[st['dst']] = R
            out.probe('object_read_from_a_file_written_again')
            trace.append(('copy', kind, st['order'], st['memmap'] if kind == 'cube' else None))
            continue
        if st['op'] == 'get_stale':
            # a reader that memory-mapped a cube earlier keeps seeing what it read, whatever happened to the path since
            for cube, R, order in open_cubes:
                out.probe('stale_memmap_reader')
                r = pipe.call(_check_cube, cube, R, order, out, 'stale reader')
                msg = r[1] if r[0] == 'ok' else '%s: %s' % (pipe.exc_name(r), r[1])
                if msg:
                    out.violate('stale-reader', 'a cube object read (memmap) before its file was overwritten now shows: %s' % msg)
                    break
            trace.append(('get_stale', len(open_cubes)))
            continue
        R = store[st['path']]
        o = R.o
        p = sim.path(st['path'])
        order = st['order']
        out.probe('read_order_' + order)
        what = 'get %s (%s written %s, unit %s, read order=%s%s)' % (st['path'], o['kind'], 'ascending' if o['asc'] else 'descending', o['unit'], order,
                                                                   ', memmap=%s' % st['memmap'] if o['kind'] == 'cube' else '')
        msg = None
        if o['kind'] == 'sed':
            r = pipe.call(SED.read, p, unit_flux=_unit(o['unit']), order=order)
            if r[0] != 'ok':
                out.violate('read-failed', '%s raised %s: %s' % (what, pipe.exc_name(r), r[1]), key='sed/%s@%s' % (pipe.exc_name(r), pipe.where(r[1]) if r[0] == 'exc' else ''))
                break
            s = r[1]
            w = s.wav.to(u.micron).value
            idx, ok = _match(w, R.wav, 1e-12)
            out.compared('sed-cells', int(R.val[0].size))
            ia = R.ap_index(s.apertures.to(u.au).value) if (R.aps is not None and s.apertures is not None) else None
            if isinstance(ia, str):
                out.violate('round-trip', '%s: %s' % (what, ia), key=o['kind'])
                break
            if ia is None:
                ia = list(range(R.val.shape[1]))
            V0, U0 = R.val[0][ia], R.unc[0][ia]
            if not ok:
                msg = 'wavelengths read back %s, stored %s' % (w, R.wav)
            elif len(w) > 1 and not (np.all(np.diff(w) > 0) if order == 'wav' else np.all(np.diff(w) < 0)):
                msg = 'spectral axis not sorted as order=%r' % order
            elif not np.allclose(s.nu.to(u.Hz).value * w, 299792458e6, rtol=1e-12):
                msg = 'frequencies do not belong to the wavelengths'
            elif s.flux.shape != V0[:, idx].shape or not np.allclose(s.flux.value, V0[:, idx], rtol=1e-12, atol=0):
                k = int(np.argmax(np.abs(s.flux.value / V0[:, idx] - 1).max(axis=0))) if s.flux.shape == V0[:, idx].shape else -1
                msg = 'flux at %.6g um reads %s, stored %s' % (w[k], s.flux.value[:, k], V0[:, idx][:, k]) if k >= 0 else 'flux shape %s' % (s.flux.shape,)
            elif not np.allclose(s.error.to(_unit(o.get('unc_unit', o['unit']))).value, U0[:, idx], rtol=1e-12, atol=0):
                msg = 'errors differ from the stored cells'
            elif s.name != R.names[0] or abs(s.distance.to(u.kpc).value / o['dist'] - 1) > 1e-12:
                msg = 'name/distance %s %s' % (s.name, s.distance)
            elif R.aps is not None and s.apertures is None:
                msg = 'apertures absent, stored %s' % (R.aps,)
            if msg is None and st.get('read_unit') and st['read_unit'] != o['unit']:
                # requesting the other order only reverses the spectral axis - also when another flux unit is requested
                # (the conversion itself is C15's subject and is not judged: only that the two reads are mirror images)
                ru = _unit(st['read_unit'])
                ra = pipe.call(SED.read, p, unit_flux=ru, order='nu')
                rb = pipe.call(SED.read, p, unit_flux=ru, order='wav')
                out.probe('read_in_other_unit')
                if ra[0] != 'ok' or rb[0] != 'ok':
                    msg = 'reading in unit %s raised %s' % (st['read_unit'], pipe.exc_name(ra) or pipe.exc_name(rb))
                else:
                    a, b = ra[1], rb[1]
                    out.compared('sed-order-mirror', int(R.val[0].size))
                    if not (np.allclose(a.wav.value, b.wav.value[::-1], rtol=1e-14, atol=0) and np.allclose(a.nu.value, b.nu.value[::-1], rtol=1e-14, atol=0)
                            and np.allclose(a.flux.value, b.flux.value[..., ::-1], rtol=1e-12, atol=0) and np.allclose(a.error.value, b.error.value[..., ::-1], rtol=1e-12, atol=0)):
                        msg = 'read in %s: order=wav is not the mirror image of order=nu (wavelengths, frequencies, values and errors must reverse together)' % st['read_unit']
        elif o['kind'] == 'cube':
            r = pipe.call(SEDCube.read, p, order=order, memmap=st['memmap'])
            if r[0] != 'ok':
                out.violate('read-failed', '%s raised %s: %s' % (what, pipe.exc_name(r), r[1]), key='cube/%s@%s' % (pipe.exc_name(r), pipe.where(r[1]) if r[0] == 'exc' else ''))
                break
            c = r[1]
            if st['memmap']:
                out.probe('cube_memmap_read')
            for R0 in seen_cubes:
                if R0 is not R and any(nm_ in R0.names and R0.names.index(nm_) != j for j, nm_ in enumerate(R.names)):
                    out.probe('name_at_other_position_in_earlier_cube')
                    break
            if not any(R0 is R for R0 in seen_cubes):
                seen_cubes.append(R)
            msg = _check_cube(c, R, order, out, what)
            ia = R.ap_index(None if c.apertures is None else c.apertures.to(u.au).value) if msg is None else None
            if not isinstance(ia, list):
                ia = list(range(R.val.shape[1]))
            if msg is None:
                k = st['pick'] % len(R.names)
                rs = pipe.call(c.get_sed, R.names[k])
                out.probe('cube_get_sed')
                if rs[0] != 'ok':
                    out.violate('read-failed', '%s then get_sed(%s) raised %s: %s' % (what, R.names[k], pipe.exc_name(rs), rs[1]),
                                key='get_sed/%s@%s' % (pipe.exc_name(rs), pipe.where(rs[1]) if rs[0] == 'exc' else ''))
                    break
                sd = rs[1]
                w = sd.wav.to(u.micron).value
                idx, ok = _match(w, R.wav, 1e-12 if o.get('axis') else 0)
                out.compared('cube-sed-cells', int(R.val[k].size))
                if not ok or not np.array_equal(np.asarray(sd.flux.value, float), R.val[k][ia][:, idx]):
                    msg = 'get_sed(%s) does not return the SED that was put in' % R.names[k]
                elif (sd.error is None) != (R.unc is None) or (R.unc is not None and not np.allclose(np.asarray(sd.error.to(_unit(o.get('unc_unit', o['unit']))).value, float), R.unc[k][ia][:, idx], rtol=1e-14, atol=0)):
                    msg = 'get_sed(%s) errors do not match the stored uncertainties' % R.names[k]
                elif sd.name != R.names[k]:
                    msg = 'get_sed name %s' % sd.name
                if msg is None and len(R.names) > 2:
                    # every other model of the cube as well (each must be the SED stored under that name in THIS file)
                    for k3 in range(len(R.names)):
                        r3 = pipe.call(c.get_sed, R.names[k3])
                        out.compared('cube-sed-cells', int(R.val[k3].size))
                        if r3[0] != 'ok':
                            msg = 'get_sed(%s) raised %s' % (R.names[k3], pipe.exc_name(r3))
                        elif r3[1].name != R.names[k3] or not np.array_equal(np.asarray(r3[1].flux.value, float), R.val[k3][ia][:, idx]):
                            msg = 'get_sed(%s) does not return the SED that was put in under that name' % R.names[k3]
                        if msg:
                            break
                if msg is None and len(R.names) > 1:
                    # extract the other models from the SAME cube object, then look at the first one again
                    k2 = (k + 1 + st['pick'] // 7) % len(R.names)
                    if k2 == k:
                        k2 = (k + 1) % len(R.names)
                    rs2 = pipe.call(c.get_sed, R.names[k2])
                    out.probe('cube_get_sed_twice')
                    if rs2[0] != 'ok':
                        msg = 'second get_sed raised %s' % pipe.exc_name(rs2)
                    elif not np.array_equal(np.asarray(rs2[1].flux.value, float), R.val[k2][ia][:, idx]) or rs2[1].name != R.names[k2]:
                        msg = 'get_sed(%s) after get_sed(%s) does not return the SED that was put in' % (R.names[k2], R.names[k])
                    elif sd.name != R.names[k] or not np.array_equal(np.asarray(sd.flux.value, float), R.val[k][ia][:, idx]):
                        msg = 'the SED returned by get_sed(%s) changed when get_sed(%s) was called on the same cube' % (R.names[k], R.names[k2])
            if msg is None and st['memmap'] and st.get('keep_open'):
                open_cubes.append((c, R, order))
        else:
            r = pipe.call(ConvolvedFluxes.read, p)
            if r[0] != 'ok':
                out.violate('read-failed', '%s raised %s: %s' % (what, pipe.exc_name(r), r[1]), key='conv/%s@%s' % (pipe.exc_name(r), pipe.where(r[1]) if r[0] == 'exc' else ''))
                break
            c = r[1]
            out.compared('conv-cells', int(R.val[:, :, 0].size))
            if [str(x).strip() for x in c.model_names] != R.names:
                msg = 'names %s, stored %s' % (list(c.model_names), R.names)
            elif isinstance(R.ap_index(None if c.apertures is None else c.apertures.to(u.au).value), str):
                msg = R.ap_index(None if c.apertures is None else c.apertures.to(u.au).value)
            elif not np.array_equal(c.flux.to(u.mJy).value, R.val[:, R.ap_index(None if c.apertures is None else c.apertures.to(u.au).value) or list(range(R.val.shape[1])), 0]) \
                    or not np.array_equal(c.error.to(u.mJy).value, R.unc[:, R.ap_index(None if c.apertures is None else c.apertures.to(u.au).value) or list(range(R.val.shape[1])), 0]):
                msg = 'flux/error cells differ from the stored ones (matched by model and aperture)'
            elif abs(c.central_wavelength.to(u.micron).value - R.wav[0]) > 1e-12 * R.wav[0]:
                msg = 'central wavelength %s, stored %r' % (c.central_wavelength, R.wav[0])
        if msg:
            out.violate('round-trip', '%s: %s' % (what, msg), key=o['kind'])
            break
        trace.append(('get', o['kind'], order, st['memmap'] if o['kind'] == 'cube' else None))
    out.trace = trace


def lowerings(sc, viol=None):
    for i, st in enumerate(sc['steps']):
        if st['op'] == 'put':
            o = st['obj']
            if o.get('names'):
                yield dict(sc, steps=sc['steps'][:i] + [dict(st, obj={k_: v_ for k_, v_ in o.items() if k_ != 'names'})] + sc['steps'][i + 1:])
            for key_ in ('axis', 'ap_order'):
                if o.get(key_) not in (None, 'asc'):
                    yield dict(sc, steps=sc['steps'][:i] + [dict(st, obj={k_: v_ for k_, v_ in o.items() if k_ != key_})] + sc['steps'][i + 1:])
            for key, val in (('n_models', 1), ('n_ap', 1), ('n_ap', 2), ('n_wav', 2), ('n_wav', 3), ('unit', 'mJy'), ('has_unc', True), ('asc', False), ('has_ap', True)):
                if o[key] != val and not (key == 'n_wav' and (o['kind'] == 'conv' or o['n_wav'] < val)) and not (key == 'n_ap' and o['n_ap'] < val) \
                        and not (key == 'has_ap' and False) and not (key == 'has_unc' and o['kind'] != 'cube'):
                    o2 = dict(o, **{key: val})
                    if o2['n_ap'] > 1:
                        o2['has_ap'] = True
                    yield dict(sc, steps=sc['steps'][:i] + [dict(st, obj=o2)] + sc['steps'][i + 1:])
        elif st['op'] == 'get':
            for key, val in (('memmap', False), ('order', 'nu'), ('keep_open', False)):
                if st[key] != val:
                    yield dict(sc, steps=sc['steps'][:i] + [dict(st, **{key: val})] + sc['steps'][i + 1:])
