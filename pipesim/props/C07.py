"""C07 - convolved-flux files keep model identity, identically in both package formats.

The author writes the SAME SEDs as a per-file package and as a cube package; convolver calls (one call or several
with filter sub-sets, later ones with overwrite=True) run under a permuted directory listing, memmap on/off, and in
some runs the first attempt is killed at the k-th output file (optionally leaving a truncated file) and re-run.
"""
import os
import random

import numpy as np

from .. import env, pipe
from ..author import World, gen_world, gen_source, make_source, read_conv
from ..ref import nu_of
from ..runner import Outcome

ID = 'C07'
LEVEL = 'exploration'
RULE = ('Seeded twin worlds (same SEDs as per-file and as cube package: 1..8 models, 1..5 apertures, 5..40 wavelengths, per-file spectral '
        'order, f4/f8, gz, sub-directories, permuted parameter table; a minority per-file only with one SED on another grid) x convolver '
        'schedules (calls on the two packages interleaved, filter sub-sets, overwrite, listing permutation, memmap, crash at the k-th output '
        'file + rerun) x three Fitters (v1, v2 memmap off/on) fitting 1..3 sources. Non-trivial = at least one convolved row compared; '
        'distinct = distinct (formats, n_ap class, dtype, gz/subdir, mixed, schedule shape, crash kind, fit agreement classes).')
ASSUMPTIONS = ["the integral itself is sedfitter's own Filter.rebin used in isolation (C06 is not claimed): C07 decides WHICH SED ends up in WHICH row/aperture",
               'tolerances: 1e-10 relative for f8 storage, 2e-5 for f4 (the cube path multiplies in the storage dtype)',
               'fit agreement is judged by model name within a first-order perturbation bound; models whose prediction is within 10 delta of a limit point are skipped']
PROBES = ['crash_rerun', 'crash_left_partial_file', 'subset_calls', 'overwrite_call', 'mixed_grid', 'v1_v2_compared', 'fits_compared',
          'multi_aperture', 'gz_package', 'subdir_package', 'f4_storage', 'limit_skipped', 'tie_group', 'singular_skipped',
          'consumer_between_convolver_calls', 'remove_resolved', 'bystander_fitter_alive', 'same_filter_objects_in_several_calls', 'filter_in_decreasing_frequency', 'sed_with_a_hole', 'filter_on_the_sed_grid']


def budgets(tier):
    if tier == 'quick':
        return {'runs': 600, 'max_wall': 115, 'chunk': 4}
    return {'runs': 12000, 'max_wall': 1700, 'chunk': 6}


def generate(rng, tier, idx):
    w = gen_world(rng, fmt=1, n_models=(1, 8), n_wav=(5, 40), n_filters=(1, 3), allow_mixed=False, filt_desc=True)
    w['n_ap'] = rng.randint(1, 5)
    w['apdep'] = w['n_ap'] > 1 and rng.random() < 0.7
    w['has_ap'] = True if w['n_ap'] > 1 else rng.random() < 0.5
    w['ext_n'] = 40
    if rng.random() < 0.02:
        # finely sampled SEDs: more wavelengths than any plausible internal block size
        w['n_wav'] = rng.choice([1030, 2100, 4200])
        w['n_models'] = min(w['n_models'], 3)
    if w['n_models'] > 1 and rng.random() < 0.15:
        w['mixed'] = rng.randrange(w['n_models'])
    if w['n_models'] > 1 and rng.random() < 0.1:
        # one model SED with a hole (NaN / inf in one channel), inside or outside the filter bands
        w['sed_hole'] = [rng.randrange(w['n_models']), rng.randrange(1000), rng.choice(['flux', 'error', 'both']), rng.choice(['nan', 'nan', 'inf'])]
    formats = [1] if w['mixed'] is not None else [1, 2]
    nf = len(w['filters'])
    calls = []
    for fmt in formats:
        mine = []
        if nf == 1 or rng.random() < 0.5:
            mine.append({'op': 'convolve', 'fmt': fmt, 'subset': list(range(nf)), 'overwrite': rng.random() < 0.3})
        else:
            done = set()
            order = list(range(nf))
            rng.shuffle(order)
            while len(done) < nf:
                k = rng.randint(1, nf)
                sub = sorted(set(order[:k]))
                rng.shuffle(order)
                mine.append({'op': 'convolve', 'fmt': fmt, 'subset': sub, 'overwrite': bool(done & set(sub)) or rng.random() < 0.3})
                done |= set(sub)
        for c in mine:
            c['memmap'] = rng.random() < 0.5
            c['crash_at'] = None
            c['partial'] = False
        if rng.random() < 0.25:
            c = rng.choice(mine)
            c['crash_at'] = rng.randrange(len(c['subset']))
            c['partial'] = rng.random() < 0.5
        calls.append(mine)
    steps = []
    while any(calls):
        src = rng.choice([c for c in calls if c])
        steps.append(src.pop(0))
        if rng.random() < 0.35:
            # between convolver calls an analyst fits a source with what is convolved so far and lists parameters
            steps.append({'op': 'consume', 'fmt': steps[-1]['fmt'], 'which': rng.choice(['wp', 'wpr', 'ep']),
                          'source': gen_source(rng, nf, 'mid', flags=(1,), min_fit=1)})
    for i in range(rng.randint(1, 3)):
        steps.append({'op': 'fit', 'source': gen_source(rng, nf, 'src%d' % i, flags=(0, 1, 1, 1, 1, 2, 3, 9), min_fit=min(2, nf))})
    return {'world': w, 'formats': formats, 'listing_seed': rng.randrange(1 << 30), 'theta_seed': rng.randrange(1 << 30),
            'bystander': rng.choice([None, None, 'before', 'after']), 'bystander_seed': rng.randrange(1 << 30),
            'reuse_filters': rng.random() < 0.5,
            'remove_resolved': w['apdep'] and rng.random() < 0.4,      # a documented Fitter option; must act alike in every configuration
            'av_range': [0.0, round(rng.uniform(2, 30), 2)], 'drange': [1.0, rng.choice([1.0, 1.5, 2.5])], 'steps': steps}


def repair(sc):
    nf = len(sc['world']['filters'])
    for fmt in sc['formats']:
        done = set()
        for st in sc['steps']:
            if st['op'] == 'convolve' and st['fmt'] == fmt:
                if (done & set(st['subset'])) and not st['overwrite']:
                    return None
                done |= set(st['subset'])
        if len(done) != nf:
            return None
    return sc


def execute(sc):
    out = Outcome()
    sim = env.Sim('c07', listing_seed=sc['listing_seed'])
    try:
        with sim:
            _execute(dict(sc), sim, out)
    finally:
        out.absorb_sim(sim)
        sim.cleanup()
    return out


class _WriteFault(object):
    """Kills the process at the k-th ConvolvedFluxes.write of one convolver call (S11)."""

    def __init__(self, sim, k, partial):
        self.sim, self.k, self.partial, self.n = sim, k, partial, 0

    def __enter__(self):
        from sedfitter.convolved_fluxes import ConvolvedFluxes
        self.cls = ConvolvedFluxes
        self.orig = ConvolvedFluxes.__dict__['write']
        me = self

        def write(obj, filename, overwrite=False):
            if me.n == me.k:
                me.n += 1
                if me.partial:
                    me.orig(obj, filename, overwrite=overwrite)
                    size = os.path.getsize(filename)
                    with env.real_open(filename, 'r+b') as f:
                        f.truncate(max(1, size // 3))
                me.sim.fired('convolve_crash')
                me.sim.log(('fault', 'convolve_crash', me.sim.rel(filename), me.partial))
                raise env.SimCrash('killed while writing %s' % filename)
            me.n += 1
            return me.orig(obj, filename, overwrite=overwrite)
        ConvolvedFluxes.write = write
        return self

    def __exit__(self, *a):
        self.cls.write = self.orig
        return False


def _rel(a, b):
    """largest relative deviation of a from b; exact zeros agree"""
    a = np.asarray(a, float)
    b = np.asarray(b, float)
    with np.errstate(all='ignore'):
        d = np.abs(a - b)
        r = np.where((d == 0) | (a == b) | (np.isnan(a) & np.isnan(b)), 0.0, d / np.abs(b))
        r = np.where(np.isnan(a) ^ np.isnan(b), np.inf, r)         # a hole on one side only
    return float(np.max(r)) if r.size else 0.0


def _tol(dtype):
    return 1e-10 if dtype == 'f8' else 2e-5


def _execute(sc, sim, out):
    from astropy import units as u
    spec = sc['world']
    W = World(spec)
    rng = random.Random(sc['theta_seed'])
    sc['theta'] = pipe.theta_for(W, rng, len(W.fspec), dmin=sc['drange'][0])
    dirs = {}
    for fmt in sc['formats']:
        dirs[fmt] = W.write(sim.path('v%d' % fmt), fmt=fmt)
    if spec['gz']:
        out.probe('gz_package')
    if spec['subdir']:
        out.probe('subdir_package')
    if spec['dtype'] == 'f4':
        out.probe('f4_storage')
    if W.n_ap > 1:
        out.probe('multi_aperture')
    if spec['mixed'] is not None:
        out.probe('mixed_grid')
    if spec.get('sed_hole'):
        out.probe('sed_with_a_hole')
    if any(f.get('on_grid') for f in spec['filters']):
        out.probe('filter_on_the_sed_grid')
    if any(f.get('desc') for f in spec['filters']):
        out.probe('filter_in_decreasing_frequency')
    trace = [tuple(sc['formats']), min(W.n_ap, 2), spec['dtype'], bool(spec['gz']), bool(spec['subdir']), spec['mixed'] is not None]
    shape = []
    shared_filters = None
    done_filters = {1: set(), 2: set()}
    for st in sc['steps']:
        if st['op'] == 'consume':
            d = dirs.get(st['fmt'])
            have = sorted(done_filters[st['fmt']])
            if d is None or not have:
                continue
            from sedfitter import write_parameters, write_parameter_ranges, extract_parameters
            nm = [W.fspec[j]['name'] for j in have]
            ap = np.array([sc['theta'][j] for j in have], float) * u.arcsec
            rc = pipe.call(pipe.Fitter, nm, ap, d, **pipe.fitter_kwargs(W, sc))
            if rc[0] == 'ok':
                s0 = st['source']
                rc = pipe.call(rc[1].fit, make_source(dict(s0, valid=[s0['valid'][j] for j in have], flux=[s0['flux'][j] for j in have],
                                                            error=[s0['error'][j] for j in have])))
            if rc[0] == 'ok':
                os.makedirs(sim.path('mid'), exist_ok=True)
                fn = {'wp': write_parameters, 'wpr': write_parameter_ranges}.get(st['which'])
                if fn is not None:
                    pipe.call(fn, rc[1], sim.path('mid', 'out.txt'), select_format=('N', 2))
                else:
                    pipe.call(extract_parameters, rc[1], sim.path('mid', 'ep_'), select_format=('N', 2))
                out.probe('consumer_between_convolver_calls')
                sim.fired('consumer_between_calls')
            continue
        if st['op'] != 'convolve':
            continue
        d = dirs.get(st['fmt'])
        if d is None:
            continue
        if sc.get('reuse_filters'):
            # the user builds the Filter objects once and hands the same objects to every convolver call
            if shared_filters is None:
                shared_filters = W.filters()
            filts = [shared_filters[j] for j in range(len(W.fspec)) if j in st['subset']]
            out.probe('same_filter_objects_in_several_calls')
        else:
            filts = W.filters(subset=st['subset'])
        kw = {'overwrite': st['overwrite']}
        if st['fmt'] == 2:
            kw['memmap'] = st['memmap']
        if len(st['subset']) < len(W.fspec):
            out.probe('subset_calls')
        if st['overwrite']:
            out.probe('overwrite_call')
        if st['crash_at'] is not None:
            with _WriteFault(sim, st['crash_at'], st['partial']):
                r = pipe.call(pipe.convolve_model_dir, d, filts, **kw)
            if r[0] != 'crash':
                out.violate('convolve-failed', 'convolve_model_dir (format %d) ended with %s before the injected crash: %s' % (st['fmt'], r[0], r[1]),
                            key='v%d/%s@%s' % (st['fmt'], pipe.exc_name(r), pipe.where(r[1]) if r[0] == 'exc' else ''))
                break
            out.probe('crash_rerun')
            if st['partial']:
                out.probe('crash_left_partial_file')
            kw['overwrite'] = True
            if not sc.get('reuse_filters'):
                filts = W.filters(subset=st['subset'])
        r = pipe.call(pipe.convolve_model_dir, d, filts, **kw)
        if r[0] != 'ok':
            out.violate('convolve-failed', 'convolve_model_dir (format %d, filters %s, overwrite=%s) raised %s: %s' % (st['fmt'], st['subset'], kw['overwrite'], pipe.exc_name(r), r[1]),
                        key='v%d/%s@%s' % (st['fmt'], pipe.exc_name(r), pipe.where(r[1]) if r[0] == 'exc' else ''))
            break
        done_filters[st['fmt']] |= set(st['subset'])
        shape.append((st['fmt'], len(st['subset']), st['overwrite'], None if st['crash_at'] is None else st['partial']))
    trace.append(tuple(shape))
    if out.violations:
        out.trace = trace
        return
    # ---- oracle 1: identity per file; oracle 2: v1 == v2
    tol = _tol(spec['dtype'])
    loose = 1e-6 if spec['dtype'] == 'f8' else 2e-4
    from ..ref import ref_rebin
    files = {}
    for fmt, d in dirs.items():
        listing = sorted(os.listdir(os.path.join(d, 'convolved')))
        exp = sorted(f['name'] + '.fits' for f in W.fspec)
        if [x for x in exp if x not in listing]:
            out.violate('files', 'format %d: convolved/ holds %s, expected %s' % (fmt, listing, exp))
            out.trace = trace
            return
        for j, fs in enumerate(W.fspec):
            r = pipe.call(read_conv, os.path.join(d, 'convolved', fs['name'] + '.fits'))
            if r[0] != 'ok':
                out.violate('file-unreadable', 'format %d %s: %s: %s' % (fmt, fs['name'], pipe.exc_name(r), r[1]), key='v%d' % fmt)
                out.trace = trace
                return
            files[(fmt, j)] = r[1]
    for (fmt, j), c in sorted(files.items()):
        fs = W.fspec[j]
        order = [W.names[i] for i in W.perm] if fmt == 1 else list(W.names)
        what = 'format %d filter %s' % (fmt, fs['name'])
        if c['names'] != order:
            out.violate('row-order', '%s: rows are %s, the %s order is %s' % (what, c['names'], 'parameter-table' if fmt == 1 else 'cube', order), key='v%d' % fmt)
            break
        if c['nmodels'] != W.n_models or c['nap'] != W.n_ap or c['flux'].shape != (W.n_models, W.n_ap):
            out.violate('header', '%s: NMODELS/NAP %s/%s, table shape %s, expected %d x %d' % (what, c['nmodels'], c['nap'], c['flux'].shape, W.n_models, W.n_ap), key='v%d' % fmt)
            break
        if c['filtwav'] is None or abs(c['filtwav'] - fs['center']) > 1e-12 * fs['center']:
            out.violate('filtwav', '%s: FILTWAV %r, the filter\'s central wavelength is %r' % (what, c['filtwav'], fs['center']), key='v%d' % fmt)
            break
        if W.aps is not None and (c['aps'] is None or len(c['aps']) != W.n_ap or not np.allclose(c['aps'], W.aps, rtol=1e-12, atol=0)):
            out.violate('apertures', '%s: apertures %s, the SEDs have %s' % (what, c['aps'], W.aps), key='v%d' % fmt)
            break
        for i, nm in enumerate(W.names):
            wv, val, unc = W.sed[i]
            snu = nu_of(wv)[::-1].copy()            # increasing frequency, as the convolver reads it
            R = W.filters(subset=[j])[0].rebin(snu * u.Hz).response        # a Filter object nobody else has touched
            ef = np.sum(val[:, ::-1] * R[None, :], axis=1)
            ee = np.sqrt(np.sum((unc[:, ::-1] * R[None, :]) ** 2, axis=1))
            row = c['names'].index(nm)
            out.compared('identity-row')
            # ... and, loosely, against the harness's own exact integrator (a gross error of the re-binning itself would
            # otherwise cancel, because the line above uses sedfitter's rebin for the expectation)
            Rx = ref_rebin(fs['nu'], fs['r'], nu_of(wv))
            with np.errstate(all='ignore'):
                dx = _rel(c['flux'][row], np.sum(val * Rx[None, :], axis=1))
            out.dev('identity-vs-exact-integral', dx / loose)
            if not (dx <= loose):
                out.violate('identity-flux', '%s: row %s holds %s, the exact integral of SED %s over the filter gives %s (rel. dev. %.3g)' % (
                    what, nm, c['flux'][row], nm, np.sum(val * Rx[None, :], axis=1), dx), key='exact/v%d' % fmt)
                break
            with np.errstate(all='ignore'):
                df = _rel(c['flux'][row], ef)
                de = _rel(c['err'][row], ee)
            out.dev('identity-flux', df / tol)
            out.dev('identity-error', de / tol)
            if not (df <= tol):
                out.violate('identity-flux', '%s: row %s holds %s, SED %s convolved gives %s (rel. dev. %.3g)' % (what, nm, c['flux'][row], nm, ef, df), key='v%d' % fmt)
                break
            if not (de <= tol):
                out.violate('identity-error', '%s: row %s holds errors %s, SED %s gives %s (rel. dev. %.3g)' % (what, nm, c['err'][row], nm, ee, de), key='v%d' % fmt)
                break
        if out.violations:
            break
    if not out.violations and len(sc['formats']) == 2:
        for j, fs in enumerate(W.fspec):
            c1, c2 = files[(1, j)], files[(2, j)]
            for nm in W.names:
                a, b = c1['names'].index(nm), c2['names'].index(nm)
                out.compared('v1-v2-row')
                out.probe('v1_v2_compared')
                with np.errstate(all='ignore'):
                    df = _rel(c1['flux'][a], c2['flux'][b])
                    de = _rel(c1['err'][a], c2['err'][b])
                out.dev('v1-v2', max(df, de) / tol)
                if not (df <= tol and de <= tol):
                    out.violate('formats-differ', 'filter %s model %s: per-file package gives %s +- %s, cube package %s +- %s' % (
                        fs['name'], nm, c1['flux'][a], c1['err'][a], c2['flux'][b], c2['err'][b]))
                    break
            if out.violations:
                break
    if out.violations:
        out.trace = trace
        return
    # ---- oracle 3: fits from either package, memory-mapped or not, agree
    fit_classes = []
    if len(sc['formats']) == 2:
        names, ap = pipe.filter_args(W, sc)
        kw = pipe.fitter_kwargs(W, sc)
        Fs = {}
        alive = []

        def bystander():
            # another user's memory-mapped Fitter on another cube package (same names and filters, other numbers)
            from ..author import prelude_spec
            Wb = World(prelude_spec(spec, random.Random(sc.get('bystander_seed', 1))))
            db = Wb.write(sim.path('other_cube'), fmt=2)
            if pipe.call(pipe.convolve_model_dir, db, Wb.filters())[0] != 'ok':
                return
            rb = pipe.call(pipe.Fitter, names, ap, db, use_memmap=True, remove_resolved=Wb.apdep, extinction_law=Wb.extinction(),
                           av_range=list(sc['av_range']), distance_range=list(sc['drange']) * u.kpc)
            if rb[0] == 'ok':
                alive.append(rb[1])
                out.probe('bystander_fitter_alive')
                sim.fired('bystander_fitter')
        if sc.get('bystander') == 'before':
            bystander()
        for key, d, mm in (('v1', dirs[1], True), ('v2', dirs[2], False), ('v2m', dirs[2], True)):
            r = pipe.call(pipe.Fitter, names, ap, d, use_memmap=mm, remove_resolved=bool(sc.get('remove_resolved')), **kw)
            if r[0] != 'ok':
                out.violate('fitter-failed', 'Fitter on %s raised %s: %s' % (key, pipe.exc_name(r), r[1]), key='%s/%s@%s' % (key, pipe.exc_name(r), pipe.where(r[1]) if r[0] == 'exc' else ''))
                break
            Fs[key] = r[1]
        if sc.get('bystander') == 'after' and not out.violations:
            bystander()
        if sc.get('remove_resolved'):
            out.probe('remove_resolved')
        if not out.violations:
            dstore = 2.0 ** -23 / np.log(10) * (2 if spec['dtype'] == 'f4' else 1)
            d12 = 1e-12 if spec['dtype'] == 'f8' else 2e-5 / np.log(10)
            for st in sc['steps']:
                if st['op'] != 'fit' or out.violations:
                    continue
                s = st['source']
                valid = np.array(s['valid'])
                res = {}
                for key, F in Fs.items():
                    r = pipe.call(F.fit, make_source(s))
                    if r[0] != 'ok':
                        out.violate('fit-failed', 'fit on %s raised %s: %s' % (key, pipe.exc_name(r), r[1]), key='%s/%s' % (key, pipe.exc_name(r)))
                        break
                    info = r[1]
                    res[key] = {str(n).strip(): (float(c), float(a), float(x), np.asarray(mf, float)) for n, c, a, x, mf in zip(
                        info.model_name, np.asarray(info.chi2, float), np.asarray(info.av, float), np.asarray(info.sc, float), np.asarray(info.model_fluxes, float))}
                    res[key + '/rank'] = [str(n).strip() for n in info.model_name]
                if out.violations:
                    break
                fl, er = np.array(s['flux'], float), np.array(s['error'], float)
                # the statement's "fits agree" presupposes a well-posed regression (C01/C02's quantifier): with fewer
                # fitted points than free parameters, or all extinction coefficients (nearly) equal, the closed form is
                # 0/0 and its rounding noise legitimately differs between configurations
                from ..ref import ref_k
                kj = ref_k(W.ext_wav, W.ext_chi, [f['center'] for f in W.fspec])
                mfit = (valid == 1) | (valid == 4)
                with np.errstate(all='ignore'):
                    wts = np.where(valid == 1, (np.log(10) * fl / er) ** 2, 0.0)
                if W.apdep:
                    singular = not np.any(mfit & (np.abs(kj) > 1e-6))
                else:
                    m11 = np.sum(wts * kj * kj)
                    m22 = np.sum(wts * 4.0)
                    m12 = np.sum(wts * kj * -2.0)
                    singular = mfit.sum() < 2 or not (m11 * m22 - m12 * m12 > 1e-6 * m11 * m22)
                if singular:
                    out.probe('singular_skipped')
                    continue
                lf = np.zeros(len(fl))
                wt = np.zeros(len(fl))
                m1 = valid == 1
                lf[m1] = np.log10(fl[m1]) - 0.5 * (er[m1] / fl[m1]) ** 2 / np.log(10)
                wt[m1] = (np.log(10) * fl[m1] / er[m1]) ** 2
                ml = (valid == 2) | (valid == 3)
                lf[ml] = np.log10(fl[ml])
                bound_of = {}
                for nm in W.names:
                    c2, a2, s2, mf2 = res['v2'][nm]
                    rs = np.abs(lf - mf2)
                    near = any(valid[j] in (2, 3) and rs[j] < 10 * max(d12, dstore) + 1e-4 for j in range(len(valid)))
                    fin = [bool(np.isfinite(x_)) for x_ in (res['v1'][nm][0], c2, res['v2m'][nm][0])]
                    if len(set(fin)) > 1:
                        out.compared('fit-agreement')
                        out.violate('fits-differ', 'source %s model %s: chi2 is %.10g from the per-file package, %.10g from the cube package, %.10g memory-mapped (finite in one, not in another)' % (
                            s['name'], nm, res['v1'][nm][0], c2, res['v2m'][nm][0]), key='finite')
                        break
                    if near or not np.isfinite(c2) or c2 > 1e29 or not np.isfinite(res['v1'][nm][0]) or not np.isfinite(res['v2m'][nm][0]):
                        out.probe('limit_skipped')
                        bound_of[nm] = None
                        continue
                    b3 = 10 * np.sum(wt * (2 * rs * dstore + dstore ** 2)) + 1e-9 + 1e-12 * abs(c2)
                    b1 = 10 * np.sum(wt * (2 * rs * d12 + d12 ** 2)) + 1e-9 + 1e-12 * abs(c2)
                    bound_of[nm] = max(b1, b3)
                    out.compared('fit-agreement')
                    out.probe('fits_compared')
                    out.dev('fit-v1-v2', abs(res['v1'][nm][0] - c2) / b1)
                    out.dev('fit-memmap', abs(res['v2m'][nm][0] - c2) / b3)
                    if abs(res['v1'][nm][0] - c2) > b1:
                        out.violate('fits-differ', 'source %s model %s: chi2 %.10g from the per-file package, %.10g from the cube package (bound %.3g)' % (s['name'], nm, res['v1'][nm][0], c2, b1), key='v1-v2')
                        break
                    if abs(res['v2m'][nm][0] - c2) > b3:
                        out.violate('fits-differ', 'source %s model %s: chi2 %.10g memory-mapped, %.10g not (bound %.3g)' % (s['name'], nm, res['v2m'][nm][0], c2, b3), key='memmap')
                        break
                if out.violations:
                    break
                # rankings agree up to permutations inside groups closer than the bound
                for key in ('v1', 'v2m'):
                    ra, rb = res[key + '/rank'], res['v2/rank']
                    for pos, (x, y) in enumerate(zip(ra, rb)):
                        if x != y:
                            bx, by = bound_of.get(x), bound_of.get(y)
                            if bx is None or by is None:
                                continue
                            if abs(res['v2'][x][0] - res['v2'][y][0]) > 2 * (bx + by):
                                out.violate('ranking-differs', 'source %s: rank %d is %s from %s but %s from the cube package (chi2 %.8g vs %.8g)' % (
                                    s['name'], pos + 1, x, key, y, res['v2'][x][0], res['v2'][y][0]), key=key)
                                break
                            out.probe('tie_group')
                    if out.violations:
                        break
                fit_classes.append(int(np.sum((valid == 1))))
    trace.append(tuple(fit_classes))
    out.trace = trace


def lowerings(sc, viol=None):
    if sc.get('bystander'):
        yield dict(sc, bystander=None)
    if sc.get('remove_resolved'):
        yield dict(sc, remove_resolved=False)
    if sc.get('reuse_filters'):
        yield dict(sc, reuse_filters=False)
    for i, st in enumerate(sc['steps']):
        if st['op'] == 'convolve':
            if st['crash_at'] is not None:
                yield dict(sc, steps=sc['steps'][:i] + [dict(st, crash_at=None, partial=False)] + sc['steps'][i + 1:])
            if not st['memmap']:
                yield dict(sc, steps=sc['steps'][:i] + [dict(st, memmap=True)] + sc['steps'][i + 1:])
    w = sc['world']
    for key, lo in (('n_models', 1), ('n_models', 2), ('n_ap', 1), ('n_ap', 2), ('n_wav', 5), ('n_wav', 10)):
        if w[key] > lo:
            w2 = dict(w, **{key: lo})
            w2['mixed'] = None
            if w2.get('asc_per_file') is not None:
                w2['asc_per_file'] = w2['asc_per_file'][:w2['n_models']]
            if key == 'n_ap' and lo == 1:
                w2['apdep'] = False
            yield dict(sc, world=w2, formats=sc['formats'])
    for key, val in (('dtype', 'f8'), ('asc_per_file', None), ('gz', False), ('subdir', 0), ('asc', False), ('apdep', False)):
        if w.get(key) != val:
            yield dict(sc, world=dict(w, **{key: val}))
    if len(w['filters']) > 1:
        nf = len(w['filters']) - 1
        steps = []
        for st in sc['steps']:
            if st['op'] == 'convolve':
                sub = [k for k in st['subset'] if k < nf]
                if not sub:
                    continue
                ca = st['crash_at']
                steps.append(dict(st, subset=sub, crash_at=None if ca is None or ca >= len(sub) else ca))
            else:
                s = st['source']
                steps.append(dict(st, source=dict(s, valid=s['valid'][:nf], flux=s['flux'][:nf], error=s['error'][:nf])))
        cand = dict(sc, world=dict(w, filters=w['filters'][:nf]), steps=steps)
        if repair(cand) is not None:
            yield cand
