"""Helpers shared by the property executors: driving sedfitter's stages and reading their outputs
with harness-side readers."""
import os
import pickle
import warnings

import numpy as np

warnings.filterwarnings('ignore')

import matplotlib  # noqa: E402
matplotlib.use('Agg')

from astropy import units as u  # noqa: E402
from astropy import log as _alog  # noqa: E402

_alog.setLevel('ERROR')
np.seterr(all='ignore')

import sedfitter  # noqa: E402
from sedfitter import Fitter, fit  # noqa: E402
from sedfitter.convolve import convolve_model_dir, convolve_model_dir_monochromatic  # noqa: E402
from sedfitter.fit_info import FitInfoFile, FitInfo  # noqa: E402
from sedfitter.source import Source  # noqa: E402

from . import env  # noqa: E402
from .canon import canon_record, canon_meta  # noqa: E402


def assert_repo():
    repo = os.environ.get('PIPESIM_REPO', '/repo')
    if not os.path.realpath(sedfitter.__file__).startswith(os.path.realpath(repo) + '/'):
        raise env.HarnessError('sedfitter imported from %s, expected under %s' % (sedfitter.__file__, repo))


def call(fn, *a, **kw):
    """('ok', value) or ('exc', exception). SimCrash and SystemExit are reported too."""
    try:
        return ('ok', fn(*a, **kw))
    except env.SimCrash as e:
        return ('crash', e)
    except SystemExit as e:
        return ('exit', e)
    except Exception as e:   # noqa
        return ('exc', e)


def exc_name(res):
    return type(res[1]).__name__ if res[0] != 'ok' else None


def where(exc):
    """innermost frame of the traceback that lies in the repository"""
    import traceback
    repo = os.environ.get('PIPESIM_REPO', '/repo')
    tb = traceback.extract_tb(exc.__traceback__)
    fr = [f for f in tb if f.filename.startswith(repo + '/')]
    if not fr:
        return 'outside-repo'
    f = fr[-1]
    return '%s:%s' % (os.path.relpath(f.filename, repo), f.name)


def theta_for(W, rng, nf, dmin=1.0):
    """aperture radii (arcsec) such that theta*dmin is not below the smallest tabulated aperture"""
    theta = [round(rng.uniform(1, 10), 3) for _ in range(nf)]
    if W.n_ap > 1:
        need = W.aps[0] / (min(theta) * dmin * 1000.)
        if need > 1:
            theta = [round(t * need * 1.05, 6) for t in theta]
    return theta


def fitter_kwargs(W, scen):
    dr = (list(scen['drange']) * u.kpc).to(u.Unit(W.spec.get('d_unit', 'kpc')))
    av = list(scen['av_range'])
    how = W.spec.get('args_as', 'list')
    if how == 'tuple':
        av = tuple(av)
    elif how == 'array':
        av = np.array(av, float)
    return dict(extinction_law=W.extinction(), av_range=av, distance_range=dr)


def filter_args(W, scen):
    names = [f['name'] for f in W.fspec]
    if W.spec.get('args_as') == 'tuple':
        names = tuple(names)
    return names, (np.array(scen['theta'], float) * u.arcsec).to(u.Unit(W.spec.get('ap_unit', 'arcsec')))


def read_fit_raw(path):
    """Harness reader of a fit file: plain pickle loop. Returns (meta_or_None, [records], offsets).
    The byte format of a fit file is not part of any property: when the plain loop cannot make sense of the file
    (another framing, a persistent pickler, ...) sedfitter's own reader is used instead and the fact is counted."""
    if os.path.getsize(path) == 0:
        return None, [], []
    try:
        m, recs, offs = _read_fit_raw_plain(path)
        # only believe the plain loop when the file really has the layout it assumes (directory, filter list, law, records)
        if (all(isinstance(r, FitInfo) for r in recs) and isinstance(m.model_dir, (str, os.PathLike)) and isinstance(m.filters, (list, tuple))
                and not isinstance(m.extinction_law, FitInfo) and (m.extinction_law is None or hasattr(m.extinction_law, 'chi'))):
            return m, recs, offs
    except Exception:
        pass
    RAW_FALLBACKS[0] += 1
    f = FitInfoFile(path, 'r')
    try:
        recs = list(f)
        return f.meta, recs, []
    finally:
        f.close()


RAW_FALLBACKS = [0]


def _read_fit_raw_plain(path):
    recs = []
    offs = []
    with env.real_open(path, 'rb') as f:
        model_dir = pickle.load(f)
        filters = pickle.load(f)
        law = pickle.load(f)
        offs.append(f.tell())
        while True:
            try:
                r = pickle.load(f)
            except EOFError:
                break
            recs.append(r)
            offs.append(f.tell())

    class M(object):
        pass
    m = M()
    m.model_dir, m.filters, m.extinction_law = model_dir, filters, law
    for r in recs:
        if isinstance(r, FitInfo):
            r.meta = m
    return m, recs, offs


def write_fit_raw(path, infos):
    """Harness writer of a fit file in the plain layout (directory, filter list, law, one pickle per record), for inputs
    that must not depend on the writer under test."""
    with env.real_open(path, 'wb') as f:
        m = infos[0].meta
        pickle.dump(m.model_dir, f, 2)
        pickle.dump(m.filters, f, 2)
        pickle.dump(m.extinction_law, f, 2)
        for i in infos:
            pickle.dump(i, f, 2)


def read_fit_sed(path):
    """sedfitter's own reader, as a consumer would use it."""
    f = FitInfoFile(path, 'r')
    try:
        return list(f)
    finally:
        f.close()


def write_fit_file(path, infos):
    f = FitInfoFile(path, 'w')
    for i in infos:
        f.write(i)
    f.close()


def twin_records(W, d, scen, lines, use_memmap=True, specs=None):
    """Object-interface twin of fit(): same Fitter arguments; the sources are built from the scenario's own numbers
    when `specs` is given (independent of sedfitter's line parser), otherwise parsed from the same lines."""
    from .author import make_source
    names, ap = filter_args(W, scen)
    ft = Fitter(names, ap, d, use_memmap=use_memmap, remove_resolved=bool(scen.get('remove_resolved')), **fitter_kwargs(W, scen))
    out = []
    for k, ln in enumerate(lines):
        if len(ln.split()) < 3:
            break
        s = make_source({kk: vv for kk, vv in specs[k].items() if kk != 'arrays'}) if specs is not None else Source.from_ascii(ln)
        if s.n_data >= scen['n_data_min']:
            info = ft.fit(s)
            if not scen['output_convolved']:
                info.model_fluxes = None
            info.keep(tuple(scen['sel']))
            out.append(info)
    return out


def sel_arg(sel):
    """The selector as a caller might hand it over - same form, same value: a tuple or a list, the number as a python
    float / int or a numpy scalar.  The representation is derived from the selector itself, so a replay uses the same."""
    import zlib
    form, val = sel[0], sel[1]
    style = zlib.crc32(repr((form, val)).encode()) % 6
    if form == 'N':
        val = int(val)
        v = [val, val, np.int64(val), np.int32(val), val, np.int64(val)][style]
    elif form == 'A':
        v = val
    else:
        val = float(val)
        v = [val, val, np.float64(val), val, (int(val) if (abs(val) < 1e15 and val == int(val)) else val), np.float64(val)][style]
    return [form, v] if style in (1, 5) else (form, v)


def gen_selector(rng, n_models=8):
    form = rng.choice(['A', 'N', 'C', 'D', 'E', 'F'])
    if form == 'A':
        return ['A', 0]
    if form == 'N':
        return ['N', rng.randint(0, n_models + 1)]
    return [form, float('%.4g' % (10 ** rng.uniform(-1, 5)))]


def gen_clock(rng):
    kind = rng.choice(['steady', 'steady', 'stall', 'back', 'leap', 'tiny'])
    return {'kind': kind, 'step': rng.choice([0.25, 0.9, 3.0]), 'start': rng.choice([0.0, 1.0e9])}


# ---------------------------------------------------------------------------------------------
# post-processing consumers, run the way an analyst would

CONSUMERS = ['wp', 'wpr', 'ep', 'fo', 'plot']


def run_consumer(sim, op, arg, sel, tag, extra=None):
    """Run one post-processing function; returns ('ok', canonical outputs) or ('exc', 'Type@where')."""
    import glob as _glob
    import shutil
    from sedfitter import (write_parameters, write_parameter_ranges, extract_parameters, filter_output, plot)
    extra = extra or {}
    od = sim.path('o_' + tag)
    shutil.rmtree(od, ignore_errors=True)
    os.makedirs(od)
    sel = sel_arg(sel)
    add = extra.get('additional_dict') or {}
    if op == 'wp':
        r = call(write_parameters, arg, od + '/wp.txt', select_format=sel, additional=add)
    elif op == 'wpr':
        r = call(write_parameter_ranges, arg, od + '/wpr.txt', select_format=sel, additional=add)
    elif op == 'ep':
        r = call(extract_parameters, arg, od + '/ep_', select_format=sel, header=extra.get('header', True))
    elif op == 'fo':
        r = call(filter_output, arg, output_good=od + '/good', output_bad=od + '/bad',
                 **{extra.get('criterion', 'cpd'): extra.get('threshold', 3.7)})
    elif op == 'plot':
        r = call(plot, arg, select_format=sel, sed_type=extra.get('sed_type', 'interp'), show_convolved=bool(extra.get('show_convolved')),
                 plot_mode=extra.get('plot_mode', 'A'), plot_max=extra.get('plot_max'), memmap=extra.get('memmap', True),
                 sources=extra.get('plot_sources'), plot_name=extra.get('plot_name', True), plot_info=extra.get('plot_info', True),
                 **({'x_mode': 'M', 'x_range': (0.05, 2000.), 'y_mode': 'M', 'y_range': (1e-16, 1e-6)} if extra.get('manual_axes') else {}))
    else:
        raise env.HarnessError('consumer %r' % op)
    if r[0] == 'exc':
        return ('exc', '%s@%s' % (type(r[1]).__name__, where(r[1])), str(r[1])[:200])
    if r[0] != 'ok':
        return ('exc', r[0], '')
    if op == 'plot':
        figs = r[1]
        res = []
        for k in sorted(figs):
            v = figs[k]
            res.append((k, [np.asarray(sg, float).tobytes() for sg in v['lines'].get_segments()] if 'lines' in v else None))
        return ('ok', res)
    res = {}
    for p in sorted(_glob.glob(od + '/*')):
        if op == 'fo':
            res[os.path.basename(p)] = [canon_record(x, meta=True) for x in read_fit_raw(p)[1]]
        else:
            res[os.path.basename(p)] = env.real_open(p, 'rb').read()
    return ('ok', res)


def fitted_world(sim, sc, out, sel=('A', 0), output_convolved=False, n_data_min=0, raw_fallback=False):
    """World -> package on disk -> convolve -> fit() of sc['sources'] into a file. Setup only: any failure here
    discards the scenario (these stages are the subject of other properties). Returns (W, dir, path, records)."""
    import random
    from .author import World, source_line
    W = World(sc['world'])
    rng = random.Random(sc['theta_seed'])
    sc['theta'] = theta_for(W, rng, len(W.fspec), dmin=sc['drange'][0])
    if sc.get('prelude'):
        run_prelude(sim, sc, out, stages=('convolve', 'fit', 'consume'))
    d = W.write(sim.path('pkg'), keep_convolved=bool(sc.get('prelude') and sc['prelude'].get('leftover_gz')))
    r = call(convolve_model_dir, d, W.filters())
    if r[0] != 'ok':
        out.discarded = 'setup-convolve:' + exc_name(r)
        return None
    names, ap = filter_args(W, sc)
    outp = sim.path('fits.fitinfo')
    text = ''.join(source_line(s) + '\n' for s in sc['sources'])
    r = call(fit, env.SimReader(sim, text), names, ap, d, outp, n_data_min=n_data_min, output_format=sel_arg(sel),
             output_convolved=output_convolved, **fitter_kwargs(W, sc))
    if r[0] != 'ok':
        out.discarded = 'setup-fit:' + exc_name(r)
        return None
    r = call(read_fit_raw, outp)
    if (r[0] != 'ok' or not r[1][1]) and raw_fallback:
        # fit() left no usable file: build the input through the object interface and the harness's own writer instead,
        # so that the property under test (which only consumes such a file) can still be exercised
        tw = call(twin_records, W, d, dict(sc, n_data_min=n_data_min, output_convolved=output_convolved, sel=list(sel)),
                  [source_line(s) for s in sc['sources']], specs=sc['sources'])
        if tw[0] == 'ok' and tw[1]:
            write_fit_raw(outp, tw[1])
            out.probe('input_file_written_by_the_harness')
            r = call(read_fit_raw, outp)
    if r[0] != 'ok' or not r[1][1]:
        out.discarded = 'setup-read:' + (exc_name(r) or 'empty')
        return None
    return W, d, outp, r[1][1]


def run_prelude(sim, sc, out, stages=('convolve', 'fit', 'consume'), d=None, theta=None):
    """History INSIDE a scenario: a previous package with the same layout, model names and filters (other numbers, other
    extinction law, other parameter-row order) occupied the same directory and was run through the same stages in this
    very process, leaving whatever process-level or on-disk state the code keeps. Failures here are not judged."""
    import random
    from .author import World, source_line, gen_source
    from sedfitter import write_parameters, plot
    P = sc['prelude']
    Wp = World(P['world'])
    d = d or sim.path('pkg')
    Wp.write(d, fmt=P.get('fmt'))
    out.probe('prelude_epoch')
    sim.fired('prelude_epoch')
    if 'convolve' in stages:
        r = call(convolve_model_dir, d, Wp.filters())
        if r[0] != 'ok':
            return
        if P.get('leftover_gz'):
            # the old package shipped compressed convolved files and they are still lying in convolved/ when the
            # package is rebuilt and re-convolved (the freshly built <F>.fits must be the ones that count)
            from .author import gzip_convolved
            gzip_convolved(d)
            out.probe('leftover_gz_convolved')
            sim.fired('leftover_gz_convolved')
    if 'mono' in stages:
        call(convolve_model_dir_monochromatic, d)
    if 'fit' in stages:
        rng = random.Random(P.get('seed', 1))
        th = theta if theta is not None else sc.get('theta') or theta_for(Wp, rng, len(Wp.fspec), dmin=sc['drange'][0])
        names = [f['name'] for f in Wp.fspec]
        text = ''.join(source_line(gen_source(rng, len(names), 'old%d' % i, flags=(1,), min_fit=1)) + '\n' for i in range(2))
        outp = sim.path('prelude.fitinfo')
        r = call(fit, env.SimReader(sim, text, label='prelude'), names, np.array(th, float) * u.arcsec, d, outp, n_data_min=1,
                 output_format=('A', 0), output_convolved=True, extinction_law=Wp.extinction(), av_range=list(sc['av_range']),
                 distance_range=list(sc['drange']) * u.kpc)
        if r[0] == 'ok' and 'consume' in stages:
            call(write_parameters, outp, sim.path('prelude.txt'), select_format=('N', 2))
            call(plot, outp, select_format=('N', 1))
