"""Independent author of model packages (both formats), filters, extinction laws, sources.

Deliberately does NOT use SED.write / SEDCube.write / ConvolvedFluxes.write: a defect in a
sedfitter writer must only be able to surface in C12.  Everything is a pure function of the
JSON world spec; arrays are regenerated from ``array_seed``.
"""
import os
import shutil

import numpy as np
from astropy.io import fits

from .ref import nu_of, ref_norm, KPC_CM

_ALPHA = 'abcdefghijklmnopqrstuvwxyz0123456789ABCXYZ_-.'     # model names: mixed case, digits, '_', '-', '.'


def _round(a, dtype):
    a = np.asarray(a, float)
    if dtype == 'f4':
        return a.astype('f4').astype('f8')
    return a


# ---------------------------------------------------------------------------------------------
# spec generation (driven by random.Random so one integer decides everything)

def gen_world(rng, fmt=None, apdep=None, n_models=(1, 8), n_ap=(1, 5), n_wav=(5, 40),
              n_filters=(1, 3), filt_desc=True, allow_mixed=False, dtypes=('f8', 'f4'),
              allow_gz=True, allow_subdir=True, n_par=(1, 4), allow_zero_band=False):
    w = {}
    w['format'] = fmt if fmt is not None else rng.choice([1, 2])
    w['apdep'] = apdep if apdep is not None else rng.random() < 0.5
    w['n_models'] = rng.randint(*n_models)
    if w['apdep']:
        w['n_ap'] = rng.randint(max(2, n_ap[0]), max(2, n_ap[1]))
    else:
        w['n_ap'] = 1
    w['has_ap'] = True if w['n_ap'] > 1 else rng.random() < 0.5
    w['n_wav'] = rng.randint(*n_wav)
    w['asc'] = rng.random() < 0.5                     # cube / default storage order
    w['asc_per_file'] = [rng.random() < 0.5 for _ in range(w['n_models'])] if rng.random() < 0.5 else None
    w['mixed'] = (rng.randrange(w['n_models']) if (allow_mixed and w['n_models'] > 1 and rng.random() < 0.5) else None)
    w['dtype'] = rng.choice(list(dtypes))
    w['gz'] = allow_gz and rng.random() < 0.25
    w['subdir'] = rng.choice([0, 0, 1, 2]) if allow_subdir else 0
    w['n_par'] = rng.randint(*n_par)
    w['cube_invalid_seed'] = rng.randrange(1 << 30) if rng.random() < 0.25 else None
    w['par_name_seed'] = rng.randrange(1 << 30) if rng.random() < 0.3 else None
    w['conf_style'] = rng.choice(['plain', 'plain', 'caps', 'upper', 'letter', 'Letter'])
    w['ext_wav_unit'] = rng.choice(['micron', 'micron', 'Angstrom', 'nm', 'cm', 'm'])
    w['ext_chi_unit'] = rng.choice(['cm2 / g', 'cm2 / g', 'm2 / kg'])
    w['ap_order'] = rng.choice(['asc', 'asc', 'desc', 'shuffled'])          # order of the aperture axis in the files
    w['par_dtypes'] = [rng.choice(['D', 'D', 'D', 'E', 'E', 'K']) for _ in range(w['n_par'])]
    w['perm_seed'] = rng.randrange(1 << 30)
    w['logd_step'] = rng.choice([0.02, 0.05, 0.013, 0.1])
    w['array_seed'] = rng.randrange(1 << 30)
    nf = rng.randint(*n_filters)
    w['filters'] = [{'name': 'F%d' % j, 'n': rng.randint(2, 14), 'seed': rng.randrange(1 << 30),
                     'desc': bool(filt_desc and rng.random() < 0.5),
                     'zero_edges': rng.random() < 0.3, 'on_grid': rng.random() < 0.08} for j in range(nf)]
    w['ext_slope'] = round(rng.uniform(1.0, 2.0), 3)
    # unit in which the package stores its fluxes (per-file: any supported family; cube: a flux density)
    # (any spelling astropy or sedfitter's legacy table understands: 'MJY' is the old spelling of mJy, 'MJy' is mega-jansky)
    w['flux_unit'] = rng.choice(['mJy', 'mJy', 'Jy', 'ergs/cm^2/s', 'erg/s', 'MJY', 'MJy', 'uJy']) if w['dtype'] == 'f8' else 'mJy'
    if w['format'] == 2 and w['dtype'] == 'f8':
        w['flux_unit'] = rng.choice(['mJy', 'Jy', 'MJY', 'MJy', 'uJy'])         # cubes hold flux densities
    # per-file SEDs: the error column carries its own unit, which need not be the flux column's
    w['err_unit'] = rng.choice(['mJy', 'Jy', 'ergs/cm^2/s']) if (w['dtype'] == 'f8' and rng.random() < 0.3) else None
    # a model on another wavelength grid may share the number of points and both end points with the others
    w['mixed_kind'] = rng.choice(['different', 'same_ends'])
    w['sed_no_distance_key'] = rng.random() < 0.2     # per-file SEDs may omit DISTANCE (1 kpc is then assumed; the author uses 1 kpc)
    w['nan_param'] = rng.random() < 0.1               # one parameter value of the package may be NaN (unknown)
    # per-file SEDs: "the order of the columns is not important" (docs), and optional component columns may be present
    w['sed_columns'] = rng.choice(['plain', 'plain', 'swapped', 'extra_first', 'extra_between'])
    # a limb-brightened 'shell' model whose flux grows faster than aperture^2 (it counts as resolved in some bands / distances)
    w['shell_model'] = rng.randrange(w['n_models']) if (w['apdep'] and rng.random() < 0.3) else None
    w['ext_n'] = rng.choice([3, 8, 40])
    # units in which the user states aperture radii and the distance range (any angle / length unit is legal)
    w['ap_unit'] = rng.choice(['arcsec', 'arcsec', 'arcmin', 'deg', 'mas'])
    # filters built in memory, or read with Filter.read from two-column text files and normalised by the user
    w['filters_from_file'] = rng.random() < 0.3
    w['args_as'] = rng.choice(['list', 'list', 'tuple', 'array'])      # how filter names / ranges are handed over
    w['d_unit'] = rng.choice(['kpc', 'kpc', 'pc', 'cm', 'lyr'])
    # one model may have exactly zero flux where one filter is sensitive (a legal grid: sedfitter treats a zero
    # convolved flux as 'invalid'); its fits come out non-finite and sit among finite ones in every result
    w['zero_band'] = [rng.randrange(w['n_models']), rng.randrange(nf)] if (allow_zero_band and w['n_models'] > 1 and rng.random() < 0.25) else None
    return w


# ---------------------------------------------------------------------------------------------

class World(object):
    """Arrays and reference data of one world (no disk access in the constructor)."""

    def __init__(self, spec):
        self.spec = spec
        g = np.random.default_rng(spec['array_seed'])
        nm, na, nw = spec['n_models'], spec['n_ap'], spec['n_wav']
        dt = spec['dtype']
        self.dtype = dt
        self.apdep = spec['apdep']
        self.n_models, self.n_ap, self.n_wav = nm, na, nw

        def grid(n):
            for _ in range(200):
                w = np.sort(10 ** g.uniform(-1, 3, n))
                w = _round(w, dt)
                if n < 2 or np.min(w[1:] / w[:-1]) > 1.03:
                    return w
            return _round(np.logspace(-1, 3, n), dt)

        self.wav = grid(nw)                                   # ascending, canonical
        if na > 1 or spec.get('has_ap'):
            self.aps = np.sort(10 ** g.uniform(1.5, 5, na))
            if na > 1:
                while np.min(self.aps[1:] / self.aps[:-1]) < 1.05:
                    self.aps = np.sort(10 ** g.uniform(1.5, 5, na))
        else:
            self.aps = None
        shape = 10 ** g.uniform(0, 2, (nm, 1, nw)) * (
            1 + 0.5 * np.sin(np.log(self.wav)[None, None, :] * g.uniform(1, 4, (nm, 1, 1)) + g.uniform(0, 6, (nm, 1, 1))))
        val = shape * np.cumsum(g.uniform(0.2, 1, (nm, na, 1)), axis=1)
        unc = val * g.uniform(0.001, 0.05, val.shape)
        if spec.get('shell_model') is not None and na > 1:
            m_ = spec['shell_model'] % nm
            grow = (self.aps / self.aps[-1]) ** g.uniform(2.5, 4.5)
            band = g.uniform(0.3, 1.0, nw)                       # how shell-like the model is in each band
            val[m_] = val[m_, -1:, :] * (grow[:, None] * band[None, :] + (1 - band[None, :]) * (self.aps / self.aps[-1])[:, None] ** 0.5)
            unc[m_] = val[m_] * 0.02
        self.val = _round(val, dt)
        self.unc = _round(unc, dt)
        # per-model spectra (canonical ascending wavelength)
        self.sed = [(self.wav, self.val[i], self.unc[i]) for i in range(nm)]
        if spec.get('mixed') is not None:
            i = spec['mixed']
            n2 = max(2, nw + int(g.integers(-2, 3)))
            w2 = grid(n2)
            if spec.get('mixed_kind') == 'same_ends' and nw >= 3:
                # same number of points, same first and last wavelength, other interior sampling
                n2 = nw
                t = g.uniform(0.2, 0.8, nw - 2)
                inner = self.wav[:-2] ** (1 - t) * self.wav[2:] ** t if nw > 3 else np.array([self.wav[0] ** 0.3 * self.wav[-1] ** 0.7])
                inner = np.sort(np.clip(inner, self.wav[0] * 1.001, self.wav[-1] / 1.001))[:nw - 2]
                w2 = _round(np.concatenate([[self.wav[0]], inner, [self.wav[-1]]]), dt)
                if len(set(w2.tolist())) != nw or np.min(w2[1:] / w2[:-1]) <= 1.0005:
                    w2 = grid(nw)
            v2 = _round(10 ** g.uniform(0, 2, (1, n2)) * np.cumsum(g.uniform(0.2, 1, (na, 1)), axis=0), dt)
            u2 = _round(v2 * g.uniform(0.001, 0.05, v2.shape), dt)
            self.sed[i] = (w2, v2, u2)
        # names: distinct, lexicographic order unrelated to index order, varying length
        names = []
        seen = set()
        gn = np.random.default_rng(spec.get('name_seed', spec['array_seed'] + 101))
        while len(names) < nm:
            L = int(gn.integers(3, 11)) if gn.random() < 0.8 else int(gn.integers(24, 31))     # up to the 30-character column limit
            s = ''.join(_ALPHA[int(k)] for k in gn.integers(0, len(_ALPHA), L))
            if s[0] in '-.' or s[-1] == '.':
                continue
            if names and gn.random() < 0.15:
                s = (names[int(gn.integers(0, len(names)))] + s)[:30]        # a name that has another name as its prefix
            if s not in seen:
                seen.add(s)
                names.append(s)
        self.names = names
        # parameters, pairwise distinct by > 1 % in every column
        self.par_names = ['PAR%d' % (k + 1) for k in range(spec['n_par'])]
        if spec.get('par_name_seed') is not None:
            # what the package author calls the columns is the author's business: names that coincide with the fitter's
            # own quantities, mixed case, one much wider than a listing column
            pool = ['AV', 'SCALE', 'CHI2', 'N_FITS', 'TSTAR', 'Mdot', 'inclination_of_the_outflow_cavity', 'x', 'LOG_D', 'L', 'M', 'NAME', 'MODEL']
            gp = np.random.default_rng(spec['par_name_seed'])
            self.par_names = [pool[i] for i in gp.permutation(len(pool))[:spec['n_par']]]
        self.pars = {}
        for k, p in enumerate(self.par_names):
            # (large grids: spread over one decade instead, so that the values stay finite in single precision)
            base = (1.02 ** g.permutation(nm) if nm <= 64 else 10.0 ** (g.permutation(nm) / float(nm))) * (k + 1.5)
            self.pars[p] = base * 10.0 ** int(g.integers(-4, 5)) * (-1 if g.random() < 0.2 else 1)
        nan_at = int(g.integers(0, nm)) if (spec.get('nan_param') and nm > 1) else None
        # storage type of each parameter column: double, single precision or integer (all 'numeric'); the reference
        # holds the value the file holds
        self.par_formats = {}
        for k, p in enumerate(self.par_names):
            fm = (spec.get('par_dtypes') or [])[k:k + 1]
            fm = fm[0] if fm else 'D'
            if fm == 'E':
                self.pars[p] = self.pars[p].astype(np.float32).astype(float)
            elif fm == 'K':
                gi = np.random.default_rng([spec['array_seed'], 77, k])
                self.pars[p] = ((gi.permutation(nm) + 1) * int(gi.integers(1, 40)) * (-1 if gi.random() < 0.2 else 1)).astype(float)
            self.par_formats[p] = fm
        if nan_at is not None and self.par_formats[self.par_names[-1]] != 'K':
            self.pars[self.par_names[-1]][nan_at] = np.nan
        self.perm = np.random.default_rng(spec['perm_seed']).permutation(nm)
        # filters
        lo, hi = self.wav[0] * 1.05, self.wav[-1] / 1.05
        if not lo < hi:                      # very narrow wavelength grids (2 close wavelengths)
            lo, hi = self.wav[0], self.wav[-1] * (1 + 1e-9)
        self.fspec = []
        for f in spec['filters']:
            gf = np.random.default_rng(f['seed'])
            c = float(10 ** gf.uniform(np.log10(lo), np.log10(hi)))
            w = np.sort(gf.uniform(c * 0.7, c * 1.4, f['n']))
            while np.min(w[1:] / w[:-1]) < 1.0005:
                w = np.sort(gf.uniform(c * 0.7, c * 1.4, f['n']))
            fnu = nu_of(w)[::-1].copy()                      # increasing frequency
            fr = gf.uniform(0.05, 1, f['n'])
            if f.get('on_grid') and len(self.wav) >= 3:
                # a transmission curve evaluated directly on the frequency grid of the model SEDs (bit-identical values)
                fnu = nu_of(self.wav)[::-1].copy()
                fr = gf.uniform(0.05, 1, len(fnu)) * np.exp(-0.5 * (np.log(nu_of(c) / fnu) / 0.5) ** 2)
                fr = np.maximum(fr, 1e-6)
            if f.get('zero_edges') and f['n'] >= 3:
                fr[0] = 0.
                fr[-1] = 0.
            if f.get('desc'):
                fnu, fr = fnu[::-1].copy(), fr[::-1].copy()
            fr = ref_norm(fnu, fr)
            self.fspec.append({'name': f['name'], 'center': c, 'nu': fnu, 'r': fr})
        if spec.get('zero_band'):
            m, j = spec['zero_band']
            m, j = m % nm, j % len(self.fspec)
            lam = 299792458.0e6 / self.fspec[j]['nu']
            wv, v, e = self.sed[m]
            mask = (wv >= lam.min() * 0.5) & (wv <= lam.max() * 2.0)
            v = v.copy()
            e = e.copy()
            v[:, mask] = 0.0
            e[:, mask] = 0.0
            self.sed[m] = (wv, v, e)
            if wv is self.wav:
                self.val = self.val.copy()
                self.unc = self.unc.copy()
                self.val[m] = v
                self.unc[m] = e
        if spec.get('sed_hole'):
            # a model SED with a hole: one channel holds NaN (or inf) in the flux and / or the error, in every aperture
            m, j, what, bad = spec['sed_hole']
            m = m % nm
            wv, v, e = self.sed[m]
            j = j % len(wv)
            v, e = v.copy(), e.copy()
            badv = np.nan if bad == 'nan' else np.inf
            if what in ('flux', 'both'):
                v[:, j] = badv
            if what in ('error', 'both'):
                e[:, j] = badv
            self.sed[m] = (wv, v, e)
            if wv is self.wav:
                self.val = self.val.copy()
                self.unc = self.unc.copy()
                self.val[m] = v
                self.unc[m] = e
        er_ = spec.get('ext_range') or [-2, 4]           # the law may be tabulated over less than the models' wavelength range
        self.ext_wav = np.logspace(er_[0], er_[1], int(spec.get('ext_n', 40)))
        self.ext_chi = 100.0 * self.ext_wav ** (-spec['ext_slope'])

    def ap_storage_order(self):
        n = self.val.shape[1]
        kind = self.spec.get('ap_order', 'asc')
        if n < 2 or kind == 'asc':
            return np.arange(n)
        if kind == 'desc':
            return np.arange(n)[::-1].copy()
        p = np.random.default_rng([self.spec['array_seed'], 4242]).permutation(n)
        return p if not np.all(p == np.arange(n)) else p[::-1].copy()

    # -- sedfitter-side objects ---------------------------------------------------------------
    def filters(self, subset=None):
        from astropy import units as u
        from sedfitter.filter import Filter
        out = []
        fdir = getattr(self, 'filter_dir', None) if self.spec.get('filters_from_file') else None
        for j, fs in enumerate(self.fspec):
            if subset is not None and j not in subset:
                continue
            if fdir is not None:
                os.makedirs(fdir, exist_ok=True)
                path = os.path.join(fdir, fs['name'] + '.txt')
                with open(path, 'w') as fh:
                    fh.write('# wav = %r\n' % fs['center'])
                    for nu_, r_ in zip(fs['nu'], fs['r']):
                        fh.write('%r %r\n' % (float(299792458.0e6 / nu_), float(r_)))
                f = Filter.read(path)
                f.normalize()
            else:
                f = Filter()
                f.name = fs['name']
                f.central_wavelength = fs['center'] * u.micron
                f.nu = fs['nu'].copy() * u.Hz
                f.response = fs['r'].copy()
            out.append(f)
        return out

    def extinction(self):
        from astropy import units as u
        from sedfitter.extinction import Extinction
        e = Extinction()
        # the law may be tabulated in any length unit / any area-per-mass unit (Extinction.from_file has both as options)
        wu = u.Unit(self.spec.get('ext_wav_unit', 'micron'))
        cu = u.Unit(self.spec.get('ext_chi_unit', 'cm2 / g'))
        e.wav = (self.ext_wav.copy() * u.micron).to(wu)
        e.chi = (self.ext_chi.copy() * u.cm ** 2 / u.g).to(cu)
        return e

    # -- disk -----------------------------------------------------------------------------------
    def write(self, d, fmt=None, perm=None, gz=None, keep_convolved=False):
        spec = self.spec
        fmt = fmt or spec['format']
        gz = spec['gz'] if gz is None else gz
        self.filter_dir = os.path.join(os.path.dirname(d.rstrip('/')), 'filter_files')
        aside = None
        if keep_convolved and os.path.isdir(os.path.join(d, 'convolved')):
            aside = d.rstrip('/') + '.convolved-aside'
            shutil.rmtree(aside, ignore_errors=True)
            shutil.move(os.path.join(d, 'convolved'), aside)
        shutil.rmtree(d, ignore_errors=True)
        os.makedirs(d)
        if aside is not None:
            shutil.move(aside, os.path.join(d, 'convolved'))
        ext = '.fits.gz' if gz else '.fits'
        # the order in which the files list the apertures (no order is prescribed): values, errors and aperture radii are
        # permuted alike; the reference keeps thinking in increasing radius and keys every cell by the radius
        apo = self.ap_storage_order()
        aps_file = None if self.aps is None else self.aps[apo]
        if fmt == 1:
            os.makedirs(os.path.join(d, 'seds'))
            for i, nm in enumerate(self.names):
                w, v, e = self.sed[i]
                v, e = v[apo], e[apo]
                asc = spec['asc'] if spec['asc_per_file'] is None else spec['asc_per_file'][i]
                if not asc:
                    w, v, e = w[::-1], v[:, ::-1], e[:, ::-1]
                sub = os.path.join(d, 'seds')
                if spec['subdir']:
                    sub = os.path.join(sub, nm[:spec['subdir']])
                    os.makedirs(sub, exist_ok=True)
                write_sed_file(os.path.join(sub, nm + '_sed' + ext), nm, w, aps_file, v, e, dtype=self.dtype,
                               unit=spec.get('flux_unit', 'mJy'), err_unit=spec.get('err_unit'),
                               distance_key=not spec.get('sed_no_distance_key'),
                               columns=spec.get('sed_columns', 'plain'))
            self.write_params(d, self.perm if perm is None else perm, gz=gz)
        else:
            w, v, e = self.wav, self.val[:, apo], self.unc[:, apo]
            if not spec['asc']:
                w, v, e = w[::-1], v[:, :, ::-1], e[:, :, ::-1]
            valid = None
            if spec.get('cube_invalid_seed') is not None:
                # per-model validity flags of the cube file (primary HDU): a legal part of the format that neither the
                # convolver nor the fitter consults - flagged rows are ordinary rows
                valid = (np.random.default_rng(spec['cube_invalid_seed']).random(self.n_models) > 0.4).astype(int)
            write_cube_file(os.path.join(d, 'flux.fits'), self.names, w, aps_file, v, e, dtype=self.dtype,
                            unit=spec.get('flux_unit') if spec.get('flux_unit') in ('Jy', 'MJY', 'MJy', 'uJy') else 'mJy', valid=valid)
            self.write_params(d, np.arange(self.n_models), gz=gz)
        write_conf(d, self.apdep, fmt, spec['logd_step'], spec['subdir'] if fmt == 1 else 0, style=spec.get('conf_style', 'plain'))
        return d

    def write_params(self, d, perm, gz=False):
        for p in ('parameters.fits', 'parameters.fits.gz'):
            if os.path.exists(os.path.join(d, p)):
                os.remove(os.path.join(d, p))
        write_params(os.path.join(d, 'parameters.fits' + ('.gz' if gz else '')),
                     [self.names[i] for i in perm], {k: v[perm] for k, v in self.pars.items()}, formats=getattr(self, 'par_formats', None))


def _from_mjy(a, unit, wav, distance_cm):
    """values given in mJy -> the unit the file stores (the reference model always thinks in mJy)"""
    a = np.asarray(a, float)
    if unit in ('mJy', 'MJY'):
        return a
    if unit == 'Jy':
        return a / 1000.
    if unit == 'uJy':
        return a * 1000.
    if unit == 'MJy':
        return a * 1e-9
    f = a * 1e-26 * nu_of(wav)             # erg / cm^2 / s
    if unit == 'ergs/cm^2/s':
        return f
    if unit == 'erg/s':
        return f * distance_cm ** 2
    raise ValueError(unit)


def write_sed_file(path, name, wav, aps, flux, err, dtype='f8', unit='mJy', distance_cm=KPC_CM, err_unit=None, distance_key=True,
                   columns='plain'):
    err_unit = err_unit or unit
    flux = _from_mjy(flux, unit, wav, distance_cm)
    err = _from_mjy(err, err_unit, wav, distance_cm)
    h0 = fits.PrimaryHDU()
    h0.header['MODEL'] = name
    if distance_key:
        h0.header['DISTANCE'] = distance_cm
    h0.header['NAP'] = flux.shape[0]
    h0.header['NWAV'] = len(wav)
    fc = 'D' if dtype == 'f8' else 'E'
    c1 = fits.Column(name='WAVELENGTH', format=fc, array=np.asarray(wav), unit='um')
    c2 = fits.Column(name='FREQUENCY', format='D', array=nu_of(wav), unit='Hz')
    h1 = fits.BinTableHDU.from_columns([c1, c2])
    h1.name = 'WAVELENGTHS'
    ap = np.array([1e-30]) if aps is None else np.asarray(aps, float)
    h2 = fits.BinTableHDU.from_columns([fits.Column(name='APERTURE', format='D', array=ap,
                                                    unit='cm' if aps is None else 'AU')])
    h2.name = 'APERTURES'
    n = len(wav)
    f = ('%d' % n) + fc
    cf = fits.Column(name='TOTAL_FLUX', format=f, array=np.asarray(flux), unit=unit)
    ce = fits.Column(name='TOTAL_FLUX_ERR', format=f, array=np.asarray(err), unit=err_unit)
    # optional component columns of the original format, filled with numbers that must never be mistaken for the total
    cs = fits.Column(name='STELLAR_FLUX', format=f, array=np.asarray(flux) * 0.123, unit='Jy')
    cse = fits.Column(name='STELLAR_FLUX_ERR', format=f, array=np.asarray(err) * 7.7, unit='Jy')
    cols = {'plain': [cf, ce], 'swapped': [ce, cf], 'extra_first': [cs, cse, cf, ce], 'extra_between': [cf, cs, ce, cse]}[columns]
    h3 = fits.BinTableHDU.from_columns(cols)
    h3.name = 'SEDS'
    fits.HDUList([h0, h1, h2, h3]).writeto(path, overwrite=True)


def write_cube_file(path, names, wav, aps, val, unc, dtype='f8', unit='mJy', distance_cm=KPC_CM, valid=None):
    val = _from_mjy(val, unit, wav, distance_cm)
    unc = None if unc is None else _from_mjy(unc, unit, wav, distance_cm)
    h0 = fits.PrimaryHDU(data=np.ones(len(names), dtype=int) if valid is None else np.asarray(valid, dtype=int))
    h0.header['DISTANCE'] = distance_cm
    h0.header['NWAV'] = len(wav)
    if aps is not None:
        h0.header['NAP'] = len(aps)
    h1 = fits.BinTableHDU.from_columns([fits.Column(name='MODEL_NAME', format='30A', array=np.array(names, dtype='S30'))])
    h1.name = 'MODEL_NAMES'
    h2 = fits.BinTableHDU.from_columns([fits.Column(name='WAVELENGTH', format='D', array=np.asarray(wav, float), unit='um'),
                                        fits.Column(name='FREQUENCY', format='D', array=nu_of(wav), unit='Hz')])
    h2.name = 'SPECTRAL_INFO'
    hs = [h0, h1, h2]
    if aps is not None:
        h3 = fits.BinTableHDU.from_columns([fits.Column(name='APERTURE', format='D', array=np.asarray(aps, float), unit='AU')])
        h3.name = 'APERTURES'
        hs.append(h3)
    h4 = fits.ImageHDU(np.asarray(val).astype('>' + dtype))
    h4.header['BUNIT'] = unit
    h4.name = 'VALUES'
    hs.append(h4)
    if unc is not None:
        h5 = fits.ImageHDU(np.asarray(unc).astype('>' + dtype))
        h5.header['BUNIT'] = unit
        h5.name = 'UNCERTAINTIES'
        hs.append(h5)
    fits.HDUList(hs).writeto(path, overwrite=True)


def write_params(path, names, cols, formats=None):
    cs = [fits.Column(name='MODEL_NAME', format='30A', array=np.array(names, dtype='S30'))]
    for k, v in cols.items():
        fm = (formats or {}).get(k, 'D')
        if fm == 'K':
            cs.append(fits.Column(name=k, format='K', array=np.asarray(v, float).astype(np.int64)))
        elif fm == 'E':
            cs.append(fits.Column(name=k, format='E', array=np.asarray(v, float).astype(np.float32)))
        else:
            cs.append(fits.Column(name=k, format='D', array=np.asarray(v, float)))
    h0 = fits.PrimaryHDU()
    h0.header['NMODELS'] = len(names)
    fits.HDUList([h0, fits.BinTableHDU.from_columns(cs)]).writeto(path, overwrite=True)


CONF_STYLES = {'plain': ('yes', 'no', '%s = %s\n'), 'caps': ('Yes', 'No', '%s = %s\n'), 'upper': ('YES', 'NO', '%s=%s\n'),
               'letter': ('y', 'n', '%s = %s\n'), 'Letter': ('Y', 'N', '%s   =   %s  \n')}


def write_conf(d, apdep, version, logd_step=0.02, length_subdir=0, style='plain'):
    """models.conf; `style` varies what the reader accepts anyway: the spelling of yes/no, blanks around '=', comment
    and blank lines, the order of the keys"""
    yes, no, fm = CONF_STYLES[style]
    items = [('name', 'sim'), ('length_subdir', '%d' % length_subdir), ('aperture_dependent', yes if apdep else no), ('logd_step', '%r' % logd_step)]
    if version == 2:
        items.append(('version', '2'))
    if style in ('upper', 'Letter'):
        items = items[::-1]
    with open(os.path.join(d, 'models.conf'), 'w') as f:
        if style != 'plain':
            f.write('# model package written by a simulated author\n\n')
        for k, v in items:
            f.write(fm % (k, v))


def prelude_spec(spec, rng):
    """The previous occupant of the same directory: same layout, model names, filters and sizes, other numbers."""
    p = dict(spec)
    p['name_seed'] = spec.get('name_seed', spec['array_seed'] + 101)
    p['array_seed'] = rng.randrange(1 << 30)
    p['perm_seed'] = rng.randrange(1 << 30)
    p['ext_slope'] = round(rng.uniform(1.0, 2.0), 3)
    p['mixed'] = None
    return p


def gzip_convolved(d):
    """The previous occupant shipped its convolved files compressed: <F>.fits -> <F>.fits.gz"""
    import glob
    import gzip
    for p in glob.glob(os.path.join(d, 'convolved', '*.fits')):
        with open(p, 'rb') as f, gzip.open(p + '.gz', 'wb') as g:
            g.write(f.read())
        os.remove(p)


# ---------------------------------------------------------------------------------------------
# harness-side readers (astropy.io.fits directly; no sedfitter reader)

def read_conv(path):
    with fits.open(path, memmap=False) as h:
        t = h['CONVOLVED FLUXES'].data
        aps = np.array(h['APERTURES'].data['APERTURE'], float) if 'APERTURES' in h else None
        fl = np.array(t['TOTAL_FLUX'], float)
        er = np.array(t['TOTAL_FLUX_ERR'], float)
        if fl.ndim == 1:
            fl = fl[:, None]
            er = er[:, None]
        hd = h[0].header
        if aps is not None and len(aps) == fl.shape[1] and len(aps) > 1:
            # cells are keyed by aperture radius: hand them over in increasing radius whatever order the file uses
            o = np.argsort(aps, kind='stable')
            aps, fl, er = aps[o], fl[:, o], er[:, o]
        return {'names': [str(x).strip() for x in t['MODEL_NAME']], 'flux': fl, 'err': er, 'aps': aps,
                'filtwav': hd.get('FILTWAV'), 'nmodels': hd.get('NMODELS'), 'nap': hd.get('NAP')}


# ---------------------------------------------------------------------------------------------
# sources

def gen_source(rng, nf, name, flags=(0, 1, 1, 1, 2, 3, 4, 9), min_fit=0):
    for _ in range(100):
        valid = [rng.choice(flags) for _ in range(nf)]
        if sum(1 for v in valid if v in (1, 4)) >= min_fit:
            break
    else:
        valid = [1] * nf
    flux, err = [], []
    for v in valid:
        f = 10 ** rng.uniform(-3, 3)           # sources below 1 mJy too: a flag-4 point then carries a NEGATIVE log10 flux
        e = f * 10 ** rng.uniform(-2, -0.5)
        if v == 0 and rng.random() < 0.4:
            # an unused band usually carries a placeholder instead of a measurement (docs/data.rst shows -9.999e+02)
            f = rng.choice([-999.9, -999.9, 0.0, -1.0])
            e = rng.choice([-999.9, 0.0, 1.0])
        if v in (2, 3):
            e = rng.choice([0., 0.5, 0.9, 1.0])
        elif v == 4:
            f = float(np.log10(f))
            e = round(rng.uniform(0.01, 0.2), 4)
        flux.append(float('%.6e' % f))
        err.append(float('%.6e' % e))
    src = {'name': name, 'x': round(rng.uniform(0, 360), 5), 'y': round(rng.uniform(-90, 90), 5),
           'valid': valid, 'flux': flux, 'error': err}
    # how the caller holds the photometry when it builds a Source object itself: lists, tuples, big-endian arrays (rows of a
    # FITS catalogue), strided views (every other cell of a flux/error table).  Same values in every case.
    r = rng.random()
    if r < 0.3:
        src['arrays'] = 'big' if r < 0.12 else ('strided' if r < 0.24 else 'tuple')
    elif r < 0.37:
        src['arrays'] = 'floatflags'          # the flags column of a catalogue read as floating point (1.0, 4.0, ...)
    elif r < 0.57 and 4 not in valid:
        # an integer-quantised catalogue: whole numbers held in integer arrays
        src['arrays'] = 'int'
        src['flux'] = [float(max(1, round(f))) for f in flux]
        src['error'] = [float(rng.choice([0, 1])) if v in (2, 3) else float(max(1, round(e))) for v, e in zip(valid, err)]
    # how the line of a data file is typed (same numbers): single blanks, tabs, aligned columns with leading blanks,
    # exponent notation in either case
    r = rng.random()
    if r < 0.4:
        src['line_fmt'] = 'tabs' if r < 0.1 else ('wide' if r < 0.2 else ('sci' if r < 0.3 else 'SCI'))
    return src


def source_line(s):
    kind = s.get('line_fmt', 'plain')
    if kind in ('sci', 'SCI'):
        # fluxes and errors were generated with 7 significant digits, so this notation holds the same doubles
        fm = '%.6e' if kind == 'sci' else '%.6E'
        cells = [s['name'], repr(s['x']), repr(s['y'])] + ['%d' % v for v in s['valid']]
        for f, e in zip(s['flux'], s['error']):
            cells += [fm % f, fm % e]
        if all(float(c) == v for c, v in zip(cells[3 + len(s['valid']):], [x for fe in zip(s['flux'], s['error']) for x in fe])):
            return ' '.join(cells)
        kind = 'plain'
    cells = [s['name'], repr(s['x']), repr(s['y'])] + ['%d' % v for v in s['valid']] + ['%r %r' % (f, e) for f, e in zip(s['flux'], s['error'])]
    if kind == 'tabs':
        return '\t'.join(c.replace(' ', '\t') for c in cells)
    if kind == 'wide':
        return '  ' + '   '.join(c.replace(' ', '    ') for c in cells) + '  '
    return ' '.join(cells)


def make_source(s):
    from sedfitter.source import Source
    o = Source()
    o.name = s['name']
    o.x = float(s['x'])
    o.y = float(s['y'])
    kind = s.get('arrays', 'list')
    if kind == 'int' and not all(float(x) == int(x) for x in list(s['flux']) + list(s['error'])):
        kind = 'list'                      # the content is no longer whole numbers (it was edited or rescaled)
    if kind == 'int':
        o.valid = np.array(s['valid'], dtype=int)
        o.flux = np.array(s['flux'], dtype=int)
        o.error = np.array(s['error'], dtype=int)
    elif kind == 'floatflags':
        o.valid = np.array(s['valid'], dtype=np.float64 if len(s['valid']) % 2 else np.float32)
        o.flux = np.array(s['flux'], dtype=float)
        o.error = np.array(s['error'], dtype=float)
    elif kind == 'big':
        o.valid = np.array(s['valid'], dtype='>i4')
        o.flux = np.array(s['flux'], dtype='>f8')
        o.error = np.array(s['error'], dtype='>f8')
    elif kind == 'strided':
        n = len(s['valid'])
        tab = np.zeros((n, 2))
        tab[:, 0] = s['flux']
        tab[:, 1] = s['error']
        o.valid = np.array(list(s['valid']) + [0] * n)[:n]
        o.flux = tab[:, 0]
        o.error = tab[:, 1]
    elif kind == 'tuple':
        o.valid = tuple(s['valid'])
        o.flux = tuple(s['flux'])
        o.error = tuple(s['error'])
    else:
        o.valid = list(s['valid'])
        o.flux = list(s['flux'])
        o.error = list(s['error'])
    return o
