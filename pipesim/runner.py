"""Seeded search over scenarios on 16 forked workers; minimisation; replay; evidence."""
import concurrent.futures as cf
import faulthandler
import fnmatch
import hashlib
import json
import multiprocessing
import os
import random
import signal
import subprocess
import sys
import time
import traceback

from . import env
from .canon import digest, jsonable

VERIF = os.path.dirname(os.path.dirname(os.path.abspath(__file__)))
REPO = os.environ.get('PIPESIM_REPO', '/repo')
OP_TIMEOUT = int(os.environ.get('PIPESIM_OP_TIMEOUT', '300'))


def derive_seed(verif_seed, prop_id, index):
    h = hashlib.blake2b(('%d/%s/%d' % (verif_seed, prop_id, index)).encode(), digest_size=8)
    return int.from_bytes(h.digest(), 'big')


class Outcome(object):
    """What one execution of one scenario produced."""

    def __init__(self):
        self.violations = []       # dicts: clause, key, message
        self.trace = []            # abstract trace items (for distinct_nontrivial)
        self.nontrivial = False
        self.comparisons = {}      # clause -> number of oracle comparisons made
        self.faults = {}           # fault kind -> times it actually fired
        self.probes = {}           # rare-branch probes
        self.deviation = {}        # toleranced comparison -> max fraction of bound used
        self.sim_seconds = 0.0
        self.events = []           # event log (digested)
        self.discarded = None      # reason a scenario was dropped (counted, not failed)

    def violate(self, clause, message, key=None):
        self.violations.append({'clause': clause, 'key': key or clause, 'message': str(message)[:600]})

    def compared(self, clause, n=1):
        self.comparisons[clause] = self.comparisons.get(clause, 0) + n
        if n > 0:
            self.nontrivial = True

    def probe(self, name, n=1):
        if n:
            self.probes[name] = self.probes.get(name, 0) + n

    def dev(self, name, frac):
        frac = float(frac)
        if frac == frac and frac > self.deviation.get(name, 0.0):
            self.deviation[name] = frac

    def absorb_sim(self, sim):
        for k, v in sim.counters.items():
            self.faults[k] = self.faults.get(k, 0) + v
        self.sim_seconds += sim.clock.covered
        self.events.extend(sim.events)

    def digest(self):
        return digest((self.events, sorted(self.comparisons.items()), [(v['clause'], v['key']) for v in self.violations],
                       self.trace))


class _OpTimeout(BaseException):
    pass


def _alarm(signum, frame):
    raise _OpTimeout()


def safe_execute(prop, scenario):
    """Run one scenario; classify whatever escapes."""
    out = None
    old = signal.signal(signal.SIGALRM, _alarm)
    signal.alarm(OP_TIMEOUT)
    faulthandler.dump_traceback_later(OP_TIMEOUT + 30, exit=True)
    try:
        out = prop.execute(scenario)
    except _OpTimeout:
        out = Outcome()
        out.violate('did-not-complete', 'scenario did not complete within %d s wall' % OP_TIMEOUT)
    except env.SimCrash as e:
        out = Outcome()
        out.harness_error = 'SimCrash escaped the executor: %r' % (e,)
    except BaseException as e:      # noqa
        if isinstance(e, KeyboardInterrupt):
            raise
        tb = traceback.extract_tb(e.__traceback__)
        in_repo = [f for f in tb if f.filename.startswith(REPO + '/')]
        out = Outcome()
        if in_repo and not isinstance(e, env.HarnessError):
            f = in_repo[-1]
            where = '%s:%s' % (os.path.relpath(f.filename, REPO), f.name)
            out.violate('unexpected-exception', '%s: %s at %s line %s' % (type(e).__name__, e, where, f.lineno),
                        key='%s@%s' % (type(e).__name__, where))
        else:
            out.harness_error = ''.join(traceback.format_exception(type(e), e, e.__traceback__))[-1500:]
    finally:
        signal.alarm(0)
        faulthandler.cancel_dump_traceback_later()
        signal.signal(signal.SIGALRM, old)
    return out


class _Slim(Outcome):
    """An Outcome as it comes back from the child process that executed the scenario."""

    def digest(self):
        return self._digest


_FIELDS = ('violations', 'trace', 'nontrivial', 'comparisons', 'faults', 'probes', 'deviation', 'sim_seconds', 'discarded')


def isolated_execute(prop, scenario):
    """safe_execute in a child forked for this one scenario: every run starts from the state the worker had after its
    imports, so nothing a run leaves behind in the process (module-level caches, class attributes, mutable defaults of the
    code under test) can reach the next run - history that matters is put inside a scenario instead."""
    import pickle
    import shutil
    if os.environ.get('PIPESIM_ISOLATE', '1') == '0':
        return safe_execute(prop, scenario)
    r, w = os.pipe()
    pid = os.fork()
    if pid == 0:
        code = 0
        try:
            os.close(r)
            out = safe_execute(prop, scenario)
            d = {k: getattr(out, k) for k in _FIELDS}
            d['trace'] = jsonable(d['trace'])
            d['harness_error'] = getattr(out, 'harness_error', None)
            d['bad_offset'] = getattr(out, 'bad_offset', None)
            d['_digest'] = out.digest()
            d['_trace_digest'] = digest(out.trace)
            with os.fdopen(w, 'wb') as f:
                f.write(pickle.dumps(d, 4))
        except BaseException:      # noqa
            code = 3
        finally:
            try:
                if env._WORKER_ROOT is not None and env._WORKER_ROOT[0] == os.getpid():
                    shutil.rmtree(env._WORKER_ROOT[1], ignore_errors=True)
            finally:
                os._exit(code)
    os.close(w)
    with os.fdopen(r, 'rb') as f:
        data = f.read()
    _, status = os.waitpid(pid, 0)
    out = _Slim()
    if status != 0 or not data:
        out.harness_error = 'the child process executing the scenario ended with status %r and %d bytes of result' % (status, len(data))
        out._digest = None
        return out
    d = pickle.loads(data)
    for k in _FIELDS:
        setattr(out, k, d[k])
    out._digest = d['_digest']
    out._trace_digest = d['_trace_digest']
    if d['harness_error']:
        out.harness_error = d['harness_error']
    if d['bad_offset'] is not None:
        out.bad_offset = d['bad_offset']
    return out


# ---------------------------------------------------------------------------------------------
# worker side

_PROP = None


def _run_chunk(args):
    prop_name, tier, verif_seed, indices, deadline, want_digests = args
    prop = _PROP
    agg = {'done': 0, 'nontrivial': 0, 'traces': set(), 'comparisons': {}, 'faults': {}, 'probes': {},
           'deviation': {}, 'sim_seconds': 0.0, 'violations': [], 'harness': [], 'samples': [], 'discarded': {},
           'digests': {}, 'n_violating': 0}
    for idx in indices:
        if time.time() > deadline:
            break
        rng = random.Random(derive_seed(verif_seed, prop.ID, idx))
        try:
            scenario = jsonable(prop.generate(rng, tier, idx))
        except Exception as e:      # a generator bug is a harness error of that run, not a dead worker
            agg['done'] += 1
            if len(agg['harness']) < 3:
                agg['harness'].append({'index': idx, 'error': 'generate: ' + ''.join(traceback.format_exception(type(e), e, e.__traceback__))[-1200:]})
            continue
        out = isolated_execute(prop, scenario)
        agg['done'] += 1
        he = getattr(out, 'harness_error', None)
        if he:
            if len(agg['harness']) < 3:
                agg['harness'].append({'index': idx, 'error': he})
            continue
        if out.discarded:
            agg['discarded'][out.discarded] = agg['discarded'].get(out.discarded, 0) + 1
        if out.nontrivial:
            agg['nontrivial'] += 1
            agg['traces'].add(getattr(out, '_trace_digest', None) or digest(out.trace))
        for name, src in (('comparisons', out.comparisons), ('faults', out.faults), ('probes', out.probes)):
            d = agg[name]
            for k, v in src.items():
                d[k] = d.get(k, 0) + v
        for k, v in out.deviation.items():
            if v > agg['deviation'].get(k, 0.0):
                agg['deviation'][k] = v
        agg['sim_seconds'] += out.sim_seconds
        if out.violations:
            agg['n_violating'] += 1
            if len(agg['violations']) < 4:
                agg['violations'].append({'index': idx, 'scenario': scenario, 'violations': out.violations})
        if len(agg['samples']) < 1 and out.nontrivial:
            agg['samples'].append({'run_index': idx, 'scenario': scenario, 'abstract_trace': jsonable(out.trace)})
        if want_digests:
            agg['digests'][idx] = out.digest()
    agg['traces'] = list(agg['traces'])
    return agg


def _merge(total, agg):
    total['done'] += agg['done']
    total['nontrivial'] += agg['nontrivial']
    total['traces'].update(agg['traces'])
    for name in ('comparisons', 'faults', 'probes', 'discarded'):
        for k, v in agg[name].items():
            total[name][k] = total[name].get(k, 0) + v
    for k, v in agg['deviation'].items():
        if v > total['deviation'].get(k, 0.0):
            total['deviation'][k] = v
    total['sim_seconds'] += agg['sim_seconds']
    total['violations'].extend(agg['violations'])
    total['harness'].extend(agg['harness'])
    total['n_violating'] += agg['n_violating']
    if len(total['samples']) < 3:
        total['samples'].extend(agg['samples'][:3 - len(total['samples'])])
    total['digests'].update(agg['digests'])


def run_batch(prop, tier, verif_seed, n_runs, max_wall, workers=None, chunk=None, want_digests=False, start=0):
    """Execute run indices start..start+n_runs-1 across forked workers."""
    global _PROP
    _PROP = prop
    workers = workers or int(os.environ.get('PIPESIM_WORKERS', '0')) or min(16, os.cpu_count() or 1)
    chunk = chunk or max(1, min(50, n_runs // (workers * 4) or 1))
    deadline = time.time() + max_wall
    tasks = []
    for s in range(start, start + n_runs, chunk):
        tasks.append((prop.ID, tier, verif_seed, list(range(s, min(s + chunk, start + n_runs))), deadline, want_digests))
    total = {'done': 0, 'nontrivial': 0, 'traces': set(), 'comparisons': {}, 'faults': {}, 'probes': {},
             'deviation': {}, 'sim_seconds': 0.0, 'violations': [], 'harness': [], 'samples': [], 'discarded': {},
             'digests': {}, 'n_violating': 0}
    if workers == 1:
        for t in tasks:
            _merge(total, _run_chunk(t))
        return total
    ctx = multiprocessing.get_context('fork')
    with cf.ProcessPoolExecutor(max_workers=workers, mp_context=ctx) as ex:
        futs = [ex.submit(_run_chunk, t) for t in tasks]
        for f in cf.as_completed(futs):
            try:
                _merge(total, f.result())
            except Exception as e:   # a worker died (faulthandler exit, OOM)
                total['harness'].append({'index': -1, 'error': 'worker failed: %r' % (e,)})
    return total


# ---------------------------------------------------------------------------------------------
# minimisation

def _same_class(out, sig):
    return any((v['clause'], v['key']) == sig for v in out.violations)


def shrink(prop, scenario, sig, max_exec=200, max_wall=120, first_viol=None):
    """Greedy ddmin over scenario['steps'] followed by the property's own lowerings; a candidate
    is kept only if the same violation class (clause, key) still fires."""
    t0 = time.time()
    n_exec = [0]
    last = [first_viol]

    def still_fails(s):
        if n_exec[0] >= max_exec or time.time() - t0 > max_wall:
            return False
        n_exec[0] += 1
        out = isolated_execute(prop, s)
        ok = (not getattr(out, 'harness_error', None)) and _same_class(out, sig)
        if ok:
            last[0] = [v for v in out.violations if (v['clause'], v['key']) == sig][0]
        return ok

    best = scenario
    # 1. ddmin over steps
    steps = best.get('steps')
    if isinstance(steps, list) and len(steps) > 1:
        n = 2
        while len(steps) >= 2 and n <= len(steps):
            size = max(1, len(steps) // n)
            reduced = False
            for i in range(0, len(steps), size):
                cand_steps = steps[:i] + steps[i + size:]
                if not cand_steps:
                    continue
                cand = dict(best, steps=cand_steps)
                if hasattr(prop, 'repair'):
                    cand = prop.repair(cand)
                    if cand is None:
                        continue
                if still_fails(cand):
                    best, steps = cand, cand['steps']
                    n = max(n - 1, 2)
                    reduced = True
                    break
            if not reduced:
                if size == 1:
                    break
                n = min(n * 2, len(steps))
    # 2. property-specific lowerings, to a fixed point
    progress = True
    while progress and n_exec[0] < max_exec and time.time() - t0 <= max_wall:
        progress = False
        for cand in prop.lowerings(best, last[0]):
            if cand == best:
                continue
            if still_fails(cand):
                best = cand
                progress = True
                break
    return best, n_exec[0]


def scenario_size(s):
    return len(json.dumps(s))


# ---------------------------------------------------------------------------------------------
# known findings, replay files

def load_known():
    p = os.path.join(VERIF, 'known_findings.json')
    if not os.path.exists(p):
        return []
    return json.load(open(p)).get('findings', [])


def match_known(prop_id, viol, known):
    for k in known:
        if k.get('status') == 'open' and k.get('property') == prop_id and \
                fnmatch.fnmatch('%s|%s' % (viol['clause'], viol['key']), k['key']):
            return k
    return None


def repo_head():
    try:
        return subprocess.run(['git', '-C', REPO, 'rev-parse', 'HEAD'], capture_output=True, text=True).stdout.strip()
    except Exception:
        return None


def write_replay(prop, seed, index, scenario, viol, original_size, n_exec, out_dir=None, python_flags=None):
    out_dir = out_dir or os.environ.get('PIPESIM_REPLAY_DIR') or os.path.join(VERIF, 'replays')
    os.makedirs(out_dir, exist_ok=True)
    body = {'format': 1, 'property': prop.ID, 'clause': viol['clause'], 'key': viol['key'],
            'message': viol['message'], 'verif_seed': seed, 'run_index': index, 'scenario': scenario,
            'original_size': original_size, 'minimised_size': scenario_size(scenario),
            'shrink_executions': n_exec, 'repo_head': repo_head()}
    if python_flags:
        body['python_flags'] = list(python_flags)       # ./check <ID> --replay re-executes itself with these flags
    h = hashlib.blake2b(json.dumps(body['scenario'], sort_keys=True).encode(), digest_size=4).hexdigest()
    path = os.path.join(out_dir, '%s-%d-%s.json' % (prop.ID, index, h))
    with open(path, 'w') as f:
        json.dump(body, f, indent=1, sort_keys=True)
    return path


def replay(prop, path):
    body = json.load(open(path))
    out = isolated_execute(prop, body['scenario'])
    he = getattr(out, 'harness_error', None)
    if he:
        print('HARNESS-ERROR during replay:\n' + he)
        return 2
    sig = (body['clause'], body['key'])
    known = load_known()
    if _same_class(out, sig):
        v = [v for v in out.violations if (v['clause'], v['key']) == sig][0]
        k = match_known(prop.ID, v, known)
        print('replayed: clause=%s key=%s\n  %s' % (v['clause'], v['key'], v['message']))
        if k:
            print('KNOWN-FINDING: property=%s %s' % (prop.ID, k['what']))
            return 0
        print('VIOLATION property=%s replay=%s' % (prop.ID, path))
        return 1
    if out.violations:
        print('replay produced a different violation: %s' % out.violations[0])
        print('VIOLATION property=%s replay=%s' % (prop.ID, path))
        return 1
    print('replay did not reproduce (clause=%s key=%s): property holds on this tree for that scenario' % sig)
    return 0


# ---------------------------------------------------------------------------------------------
# the check

COMPONENTS = {
    'real': ['every line of sedfitter from %s (working tree)' % REPO, 'astropy FITS I/O', 'numpy incl. np.memmap on real files',
             'pickle', 'matplotlib LineCollection (no rendering)', 'real files in a private scratch dir on /dev/shm'],
    'simulated': ['directory listing order (glob seam)', 'durability / crash / ENOSPC of fit output streams (open seam)',
                  'data stream reader', 'wall clock (sedfitter.timer.time)', 'interactive prompt (sedfitter.utils.io.input)',
                  'temp-directory allocation (tempfile.mkdtemp)', 'stdout/stderr (discarded)'],
}


def opt_batch(prop, tier, verif_seed, start, n, max_wall):
    """(child interpreter started with -O) run indices start..start+n-1 and print the outcome as one JSON line"""
    total = run_batch(prop, tier, verif_seed, n, max_wall, start=start)
    print('OPTBATCH ' + json.dumps(jsonable({'optimize': sys.flags.optimize, 'done': total['done'], 'nontrivial': total['nontrivial'],
                                             'violations': total['violations'][:4], 'n_violating': total['n_violating'],
                                             'harness': total['harness'][:2], 'comparisons': total['comparisons']})))
    return 0


def _run_opt_batch(prop, tier, verif_seed, start, n, max_wall):
    """A slice of further run indices in an interpreter started with -O: Python then compiles `assert` statements away, a
    legal way of running any program - code whose behaviour hides inside an assert changes with it."""
    if sys.flags.optimize or os.environ.get('PIPESIM_OPT_BATCH', '1') == '0' or n <= 0:
        return None
    cmd = [sys.executable, '-O', '-W', 'ignore', '-c', 'import sys; from pipesim.cli import main; sys.exit(main(sys.argv[1:]))',
           prop.ID, '--opt-batch', tier, str(start), str(n), str(max_wall)]
    try:
        p = subprocess.run(cmd, capture_output=True, text=True, cwd=VERIF, timeout=max_wall + 120,
                           env=dict(os.environ, PIPESIM_OPT_BATCH='0', PYTHONPATH=os.environ.get('PYTHONPATH', VERIF)))
    except subprocess.TimeoutExpired:
        return {'error': 'the -O batch did not finish within %d s' % (max_wall + 120)}
    line = [ln for ln in p.stdout.splitlines() if ln.startswith('OPTBATCH ')]
    if p.returncode != 0 or not line:
        return {'error': 'the -O batch ended with exit code %s: %s' % (p.returncode, (p.stdout + p.stderr)[-600:])}
    return json.loads(line[0][9:])


def run_check(prop, tier, verif_seed):
    t0 = time.time()
    env.sweep_stale_roots()
    b = prop.budgets(tier)
    scale = float(os.environ.get('PIPESIM_SCALE', '1'))
    n_runs = max(1, int(b['runs'] * scale))
    total = run_batch(prop, tier, verif_seed, n_runs, b['max_wall'], chunk=b.get('chunk'))
    n_opt = max(4, min(int(n_runs * 0.04), b.get('opt_max', 400)))
    opt = _run_opt_batch(prop, tier, verif_seed, n_runs, n_opt, b['max_wall'] / 5 + 20)
    # determinism spot check: re-execute a sample of runs and compare digests
    redo = max(2, min(int(total['done'] * 0.02), b.get('redo_max', 40)))
    redo = min(redo, total['done'])
    d1 = run_batch(prop, tier, verif_seed, redo, b['max_wall'] / 4 + 30, want_digests=True, chunk=1)
    d2 = run_batch(prop, tier, verif_seed, redo, b['max_wall'] / 4 + 30, want_digests=True, chunk=max(1, redo // 3))
    both = [k for k in d1['digests'] if k in d2['digests']]      # (a re-execution cut short by its wall cap compares fewer runs)
    det_same = sum(1 for k in both if d2['digests'][k] == d1['digests'][k])
    det_total = len(both)

    known = load_known()
    lines = []
    exit_code = 0
    groups = {}
    for item in sorted(total['violations'], key=lambda x: x['index']):
        for v in item['violations']:
            groups.setdefault((v['clause'], v['key']), (item, v))
    reported = []
    for sig, (item, v) in sorted(groups.items())[:6]:
        k = match_known(prop.ID, v, known)
        small, n_exec = shrink(prop, item['scenario'], sig, max_exec=b.get('shrink_exec', 200), max_wall=b.get('shrink_wall', 120), first_viol=v)
        out = isolated_execute(prop, small)
        vv = [x for x in out.violations if (x['clause'], x['key']) == sig]
        v_final = vv[0] if vv else v
        path = write_replay(prop, verif_seed, item['index'], small if vv else item['scenario'], v_final,
                            scenario_size(item['scenario']), n_exec)
        if k:
            lines.append('KNOWN-FINDING: property=%s %s' % (prop.ID, k['what']))
        else:
            lines.append('  clause=%s key=%s: %s' % (v_final['clause'], v_final['key'], v_final['message']))
            lines.append('VIOLATION property=%s replay=%s' % (prop.ID, path))
            exit_code = 1
        reported.append({'clause': sig[0], 'key': sig[1], 'known': bool(k), 'replay': path})
    if opt is not None:
        if opt.get('error'):
            lines.append('HARNESS-ERROR: %s' % opt['error'])
            exit_code = exit_code or 2
        else:
            for h in opt.get('harness', [])[:2]:
                lines.append('HARNESS-ERROR (-O batch) run %s:\n%s' % (h['index'], h['error']))
                exit_code = exit_code or 2
            seen_sig = set(groups)
            for item in opt.get('violations', []):
                v = item['violations'][0]
                if (v['clause'], v['key']) in seen_sig:
                    continue
                seen_sig.add((v['clause'], v['key']))
                k = match_known(prop.ID, v, known)
                path = write_replay(prop, verif_seed, item['index'], item['scenario'], v, scenario_size(item['scenario']), 0, python_flags=['-O'])
                if k:
                    lines.append('KNOWN-FINDING: property=%s %s' % (prop.ID, k['what']))
                else:
                    lines.append('  (interpreter started with -O) clause=%s key=%s: %s' % (v['clause'], v['key'], v['message']))
                    lines.append('VIOLATION property=%s replay=%s' % (prop.ID, path))
                    exit_code = 1
                reported.append({'clause': v['clause'], 'key': v['key'], 'known': bool(k), 'replay': path, 'python_flags': ['-O']})
    if det_same != det_total:
        # reported and recorded in the evidence, but not an alarm: code under test that puts a pid or a time stamp into what
        # it writes makes runs differ between processes without breaking any property (./check selftest-determinism is
        # the place where the harness's own determinism is established, on the unchanged tree)
        lines.append('NOTE: %d of %d re-executed runs had a different event-log digest' % (det_total - det_same, det_total))
    if total['harness']:
        for h in total['harness'][:3]:
            lines.append('HARNESS-ERROR run %s:\n%s' % (h['index'], h['error']))
        exit_code = exit_code or 2
    if total['done'] == 0:
        lines.append('HARNESS-ERROR: no run completed')
        exit_code = exit_code or 2
    elif total['nontrivial'] < max(2, 0.2 * total['done']) and not total['violations']:
        # e.g. a setup stage fails for (nearly) every scenario: no coverage is not a pass
        lines.append('HARNESS-ERROR: only %d of %d runs reached an oracle comparison; discarded: %s' % (
            total['nontrivial'], total['done'], json.dumps(total['discarded'], sort_keys=True)))
        exit_code = exit_code or 2

    wall = time.time() - t0
    zero_probes = [p for p in getattr(prop, 'PROBES', []) if not total['probes'].get(p)]
    coverage = {
        'evaluations': total['done'],
        'distinct_nontrivial': len(total['traces']),
        'rule': prop.RULE,
        'samples': total['samples'][:3],
        'exhaustive': False,
        'nontrivial_runs': total['nontrivial'],
        'runs_per_hour': int(total['done'] / max(wall, 1e-9) * 3600),
        'seeds': {'verif_seed': verif_seed, 'derivation': 'blake2b(VERIF_SEED/property/run_index)', 'run_indices': [0, total['done'] - 1]},
        'requested_runs': n_runs,
        'simulated_clock_seconds': total['sim_seconds'],
        'faults_fired': total['faults'],
        'oracle_comparisons': total['comparisons'],
        'probes': total['probes'],
        'probes_stuck_at_zero': zero_probes,
        'discarded_scenarios': total['discarded'],
        'max_deviation_as_fraction_of_bound': total['deviation'],
        'determinism_reexecutions': {'done': det_total, 'identical': det_same},
        'components': COMPONENTS,
        'violating_runs': total['n_violating'],
        'reported': reported,
        'workers': int(os.environ.get('PIPESIM_WORKERS', '0')) or min(16, os.cpu_count() or 1),
        'runs_under_python_O': None if opt is None else ({'error': opt['error']} if opt.get('error') else
                                                         {'done': opt['done'], 'nontrivial': opt['nontrivial'], 'violating': opt['n_violating'],
                                                          'run_indices': [n_runs, n_runs + n_opt - 1]}),
    }
    if hasattr(prop, 'extra_coverage'):
        coverage.update(prop.extra_coverage(total))
    ev = {'property_id': prop.ID, 'tier': tier, 'seed': verif_seed, 'level': prop.LEVEL, 'coverage': coverage,
          'assumptions': prop.ASSUMPTIONS, 'wall_s': round(wall, 2), 'violations': sum(1 for r in reported if not r['known'])}
    evdir = os.environ.get('PIPESIM_EVIDENCE_DIR') or os.path.join(VERIF, 'evidence')
    os.makedirs(evdir, exist_ok=True)
    evp = os.path.join(evdir, '%s.json' % prop.ID)
    with open(evp, 'w') as f:
        json.dump(jsonable(ev), f, indent=1, sort_keys=True)
    _validate_evidence(evp)
    print('%s %s: %d runs (%d non-trivial, %d distinct traces) in %.1fs; faults fired %s; comparisons %s' % (
        prop.ID, tier, total['done'], total['nontrivial'], len(total['traces']), wall,
        json.dumps(total['faults'], sort_keys=True), json.dumps(total['comparisons'], sort_keys=True)))
    if zero_probes:
        print('  probes stuck at zero: %s' % ', '.join(zero_probes))
    for ln in lines:
        print(ln)
    sys.stdout.flush()
    return exit_code


def _validate_evidence(path):
    schema_p = '/root/.vp/EVIDENCE.schema.json'
    try:
        import jsonschema
    except ImportError:
        return
    if os.path.exists(schema_p):
        jsonschema.validate(json.load(open(path)), json.load(open(schema_p)))
