"""Determinism and sensitivity self-tests (DESIGN.md 3.6)."""
import importlib
import json
import os
import shutil
import subprocess
import sys
import time

VERIF = os.path.dirname(os.path.dirname(os.path.abspath(__file__)))


def claimed():
    m = json.load(open(os.path.join(VERIF, 'MANIFEST.json')))
    return [c['property_id'] for c in m['checks']]


# ---------------------------------------------------------------------------------------------

def _digests_inproc(pid, n, workers, chunk):
    from . import runner, pipe
    pipe.assert_repo()
    prop = importlib.import_module('pipesim.props.' + pid)
    seed = int(os.environ.get('VERIF_SEED', '20260926'))
    os.environ['PIPESIM_WORKERS'] = str(workers)
    tot = runner.run_batch(prop, 'quick', seed, n, 3600, workers=workers, chunk=chunk, want_digests=True)
    if tot['harness']:
        raise SystemExit('harness errors: %s' % tot['harness'][:2])
    return tot['digests']


def determinism(argv):
    """Each run seed executed several times: different worker processes, worker counts 1 and 16, and in fresh
    interpreters under two PYTHONHASHSEED values. All event-log digests must agree."""
    if argv and argv[0] == '--emit':
        pid, n, workers, chunk = argv[1], int(argv[2]), int(argv[3]), int(argv[4])
        d = _digests_inproc(pid, n, workers, chunk)
        print('DIGESTS ' + json.dumps({str(k): v for k, v in d.items()}))
        return 0
    props = [a for a in argv if not a.startswith('-')] or claimed()
    n = int(os.environ.get('PIPESIM_DET_RUNS', '200'))
    bad = 0
    for pid in props:
        t0 = time.time()
        configs = [('0', 16, 3), ('0', 1, n), ('12345', 16, 7), ('0', 16, 1)]
        n_here = n
        results = []
        for hs, workers, chunk in configs:
            nn = n_here if workers > 1 else max(10, n_here // 8)
            env_ = dict(os.environ, PYTHONHASHSEED=hs, PYTHONPATH=VERIF + os.pathsep + os.environ.get('PYTHONPATH', ''))
            p = subprocess.run([sys.executable, '-W', 'ignore', '-c',
                                'import sys; from pipesim.cli import main; sys.exit(main(sys.argv[1:]))',
                                'selftest-determinism', '--emit', pid, str(nn), str(workers), str(chunk)],
                               capture_output=True, text=True, env=env_, cwd=VERIF)
            line = [ln for ln in p.stdout.splitlines() if ln.startswith('DIGESTS ')]
            if p.returncode != 0 or not line:
                print('%s: emit failed (hashseed %s, workers %d): %s %s' % (pid, hs, workers, p.stdout[-500:], p.stderr[-800:]))
                bad += 1
                results = None
                break
            results.append(json.loads(line[0][8:]))
        if results is None:
            continue
        ref = results[0]
        diffs = 0
        compared = 0
        for other in results[1:]:
            for k, v in other.items():
                compared += 1
                if ref.get(k) != v:
                    diffs += 1
        print('%s: %d run seeds, %d cross-configuration comparisons, %d differ (%.0fs)' % (pid, len(ref), compared, diffs, time.time() - t0))
        bad += diffs
    print('determinism self-test: %s' % ('OK' if not bad else 'FAILED'))
    return 0 if not bad else 1


# ---------------------------------------------------------------------------------------------

def load_mutants():
    out = []
    d = os.path.join(VERIF, 'pipesim', 'mutants')
    for fn in sorted(os.listdir(d)):
        if fn.endswith('.json'):
            for m in json.load(open(os.path.join(d, fn))):
                out.append(m)
    return out


def make_copy(dst):
    shutil.rmtree(dst, ignore_errors=True)
    os.makedirs(dst)
    repo = '/repo'
    shutil.copytree(os.path.join(repo, 'sedfitter'), os.path.join(dst, 'sedfitter'),
                    ignore=shutil.ignore_patterns('__pycache__', '*.pyc'))
    return dst


def apply_mutant(copy, m):
    for ed in m['edits']:
        p = os.path.join(copy, ed['file'])
        s = open(p).read()
        if s.count(ed['old']) != 1:
            raise SystemExit('mutant %s: pattern occurs %d times in %s' % (m['name'], s.count(ed['old']), ed['file']))
        open(p, 'w').write(s.replace(ed['old'], ed['new']))


def run_check_on(copy, pid, scale, scratch):
    env_ = dict(os.environ, PIPESIM_REPO=copy, PYTHONPATH=copy + os.pathsep + VERIF,
                PIPESIM_EVIDENCE_DIR=os.path.join(scratch, 'evidence'), PIPESIM_REPLAY_DIR=os.path.join(scratch, 'replays'),
                PIPESIM_SCALE=str(scale), PYTHONHASHSEED='0', PYTHONDONTWRITEBYTECODE='1')
    p = subprocess.run([sys.executable, '-W', 'ignore', '-c',
                        'import sys; from pipesim.cli import main; sys.exit(main(sys.argv[1:]))', pid, 'quick'],
                       capture_output=True, text=True, env=env_, cwd=VERIF)
    return p


def mutants(argv):
    """Apply each hand-written mutation to a scratch copy of /repo's sedfitter package under /dev/shm and run the
    property's quick check against it: it must report a violation; the unmodified copy must not."""
    from . import env
    only = [a for a in argv if not a.startswith('-')]
    scale = float(os.environ.get('PIPESIM_MUT_SCALE', '0.35'))
    base = os.path.join(env.scratch_base(), 'pipesim-mut-%d' % os.getpid())
    results = []
    try:
        props = sorted(set(m['property'] for m in load_mutants() if m['property'] != 'BENIGN'))
        if '--skip-clean' not in argv:
            copy = make_copy(os.path.join(base, 'clean'))
            for pid in props:
                if only and pid not in only and not any(o.startswith(pid) for o in only):
                    continue
                p = run_check_on(copy, pid, scale, base)
                ok = p.returncode == 0 and 'VIOLATION' not in p.stdout
                print('clean copy  %-4s -> exit %d %s' % (pid, p.returncode, 'ok' if ok else 'UNEXPECTED\n' + p.stdout[-1500:] + p.stderr[-1500:]))
                results.append(('clean/' + pid, ok))
            shutil.rmtree(copy, ignore_errors=True)
        for m in load_mutants():
            if only and m['property'] not in only and m['name'] not in only:
                continue
            if m['property'] == 'BENIGN':
                # a property-preserving change: NO check may raise an alarm on it
                copy = make_copy(os.path.join(base, 'mut'))
                apply_mutant(copy, m)
                for pid in m['checks']:
                    t0 = time.time()
                    p = run_check_on(copy, pid, scale, base)
                    quiet = p.returncode == 0 and 'VIOLATION' not in p.stdout
                    print('%-6s %-34s %s -> %s (%.0fs)' % ('BENIGN', m['name'], pid, 'quiet' if quiet else 'ALARM exit %d' % p.returncode, time.time() - t0))
                    if not quiet:
                        print('   ' + '\n   '.join(ln[:300] for ln in p.stdout.splitlines() if 'clause=' in ln or 'HARNESS' in ln or 'VIOLATION' in ln)[:1500])
                    results.append((m['name'] + '/' + pid, quiet))
                shutil.rmtree(copy, ignore_errors=True)
                continue
            copy = make_copy(os.path.join(base, 'mut'))
            apply_mutant(copy, m)
            t0 = time.time()
            p = run_check_on(copy, m['property'], scale, base)
            caught = p.returncode == 1 and ('VIOLATION property=%s' % m['property']) in p.stdout
            clause = [ln.strip() for ln in p.stdout.splitlines() if ln.strip().startswith('clause=')][:1]
            print('%-4s %-34s -> %s (%.0fs) %s' % (m['property'], m['name'], 'caught' if caught else 'MISSED exit %d' % p.returncode,
                                                  time.time() - t0, clause[0][:150] if clause else ''))
            if not caught and '-v' in argv:
                print(p.stdout[-2000:], p.stderr[-2000:])
            results.append((m['name'], caught))
            shutil.rmtree(copy, ignore_errors=True)
    finally:
        shutil.rmtree(base, ignore_errors=True)
    missed = [n for n, ok in results if not ok]
    print('mutant self-test: %d of %d as expected%s' % (len(results) - len(missed), len(results), '; not as expected: %s' % missed if missed else ''))
    return 0 if not missed else 1
