"""./check <ID> quick|thorough | --replay <file>   (see DESIGN.md section 7)"""
import importlib
import os
import sys


def main(argv):
    if len(argv) < 1 or (len(argv) < 2 and not argv[0].startswith('selftest')):
        print(__doc__)
        return 2
    os.environ.setdefault('PYTHONDONTWRITEBYTECODE', '1')
    target = argv[0]
    if target == 'selftest-determinism':
        from . import selftest
        return selftest.determinism(argv[1:])
    if target == 'selftest-mutants':
        from . import selftest
        return selftest.mutants(argv[1:])
    from . import pipe, runner
    pipe.assert_repo()
    prop = importlib.import_module('pipesim.props.' + target)
    if argv[1] == '--replay':
        import json
        flags = json.load(open(argv[2])).get('python_flags') or []
        if '-O' in flags and not sys.flags.optimize:
            # the violation was found in an interpreter started with -O (assert statements compiled away): replay it the same way
            os.execv(sys.executable, [sys.executable, '-O', '-W', 'ignore', '-c', 'import sys; from pipesim.cli import main; sys.exit(main(sys.argv[1:]))'] + list(argv))
        return runner.replay(prop, argv[2])
    if argv[1] == '--opt-batch':
        if argv[2] == 'thorough' and 'PIPESIM_OP_TIMEOUT' not in os.environ:
            runner.OP_TIMEOUT = 600
        # internal: a slice of the run indices executed by an interpreter started with -O; prints one JSON line
        return runner.opt_batch(prop, argv[2], int(os.environ.get('VERIF_SEED', '20260926')), int(argv[3]), int(argv[4]), float(argv[5]))
    tier = argv[1]                       # the registered commands name their tier; VERIF_TIER is only a fallback
    if tier not in ('quick', 'thorough'):
        tier = os.environ.get('VERIF_TIER', 'quick')
    seed = int(os.environ.get('VERIF_SEED', '20260926'))
    if tier == 'thorough' and 'PIPESIM_OP_TIMEOUT' not in os.environ:
        runner.OP_TIMEOUT = 600          # thorough scenarios enumerate far more per run; the watchdog is there for hangs, not for load
    return runner.run_check(prop, tier, seed)


if __name__ == '__main__':
    sys.exit(main(sys.argv[1:]))
