"""Canonical bytes of records / metadata; digests of event logs."""
import hashlib
import pickle

import numpy as np


def arr(x, dtype=float):
    """NaN-normalised, Quantity-safe canonical form of an array (or None)."""
    if x is None:
        return None
    a = np.array(getattr(x, 'value', x), dtype=dtype, copy=True)
    if a.dtype.kind == 'f':
        a = a.astype(np.float64)
        a[np.isnan(a)] = np.nan
        a = a + 0.0                       # -0.0 -> 0.0
    return (a.shape, a.tobytes())


def names(x):
    return None if x is None else [str(s).strip() for s in x]


def canon_source(s):
    return (str(s.name), float(s.x), float(s.y), arr(s.valid), arr(s.flux), arr(s.error))


def canon_meta(m, sim=None):
    from astropy import units as u
    d = str(getattr(m, 'model_dir', None))
    if sim is not None:
        d = sim.rel(d)
    filt = []
    for f in getattr(m, 'filters', None) or []:
        wav = f.get('wav')
        filt.append((f.get('name'), float(f['aperture_arcsec']),
                     None if wav is None else float(wav.to(u.micron).value)))
    law = getattr(m, 'extinction_law', None)
    return (d, filt, None if law is None else (arr(law.wav.to(u.micron)), arr(law.chi.to(u.cm ** 2 / u.g))))


def canon_record(r, meta=False, sim=None):
    out = (canon_source(r.source), arr(r.chi2), arr(r.av), arr(r.sc), arr(r.model_id),
           names(r.model_name), arr(r.model_fluxes))
    if meta:
        out = out + (canon_meta(r.meta, sim),)
    return pickle.dumps(out, 2)


def describe_diff(a, b):
    """Which field of two canonical records differs (for messages)."""
    fields = ['source', 'chi2', 'av', 'sc', 'model_id', 'model_name', 'model_fluxes', 'meta']
    ta, tb = pickle.loads(a), pickle.loads(b)
    return [fields[i] for i in range(min(len(ta), len(tb))) if ta[i] != tb[i]] + (['arity'] if len(ta) != len(tb) else [])


def digest(obj):
    h = hashlib.blake2b(digest_size=16)
    h.update(repr(obj).encode())
    return h.hexdigest()


def jsonable(x):
    """Make generator output JSON-serialisable and exactly reproducible (floats via repr)."""
    if isinstance(x, dict):
        return {str(k): jsonable(v) for k, v in x.items()}
    if isinstance(x, (list, tuple)):
        return [jsonable(v) for v in x]
    if isinstance(x, (np.integer,)):
        return int(x)
    if isinstance(x, (np.floating,)):
        return float(x)
    if isinstance(x, np.bool_):
        return bool(x)
    if isinstance(x, np.ndarray):
        return jsonable(x.tolist())
    return x
