"""Seams S1-S6 and the per-run simulated environment.

Nothing here changes /repo: Python looks a name up in the module's globals before the
builtins, so giving ``sedfitter.fit_info`` an attribute ``open`` (etc.) is a seam that is
off unless a ``Sim`` is installed, and is removed again when the run ends.
"""
import builtins
import errno
import importlib
import io
import os
import random
import shutil
import sys
import tempfile

_REAL_OPEN = builtins.open
_REAL_MKDTEMP = tempfile.mkdtemp


class SimCrash(BaseException):
    """The simulated process dies here; only durable bytes survive."""


class HarnessError(Exception):
    """A failure of the machinery itself (never reported as a violation)."""


# ---------------------------------------------------------------------------------------------
# scratch management

def scratch_base():
    for base in ('/dev/shm', os.environ.get('TMPDIR') or '', tempfile.gettempdir()):
        if base and os.path.isdir(base) and os.access(base, os.W_OK):
            return base
    raise HarnessError('no writable scratch base')


_WORKER_ROOT = None
_RUN_COUNTER = 0


def worker_root():
    """One scratch root per process, under /dev/shm/pipesim-<pid>/ ; removed at exit."""
    global _WORKER_ROOT
    pid = os.getpid()
    if _WORKER_ROOT is None or _WORKER_ROOT[0] != pid:
        # fixed-width name: the path is pickled into fit-file metadata, so its LENGTH must not vary between processes
        path = os.path.join(scratch_base(), 'pipesim-%010d' % pid)
        shutil.rmtree(path, ignore_errors=True)
        os.makedirs(path)
        _WORKER_ROOT = (pid, path)
        import atexit
        atexit.register(_cleanup_root, pid, path)
    return _WORKER_ROOT[1]


def _cleanup_root(pid, path):
    if os.getpid() == pid:
        shutil.rmtree(path, ignore_errors=True)


def sweep_stale_roots():
    """Remove scratch roots left by dead processes (never touches live ones)."""
    base = scratch_base()
    for name in os.listdir(base):
        if name.startswith('pipesim-'):
            try:
                pid = int(name.split('-')[1])
            except ValueError:
                continue
            if not os.path.exists('/proc/%d' % pid):
                shutil.rmtree(os.path.join(base, name), ignore_errors=True)


# ---------------------------------------------------------------------------------------------
# simulated pieces

class _Null(object):
    def write(self, s):
        return len(s)

    def flush(self):
        pass

    def isatty(self):
        return False


class SimFile(object):
    """A tracked binary output stream. Unbuffered: every ``write`` that returns is durable.

    A fault may be armed at an absolute byte offset: the write that would cross it persists
    only the bytes before the offset and then the process dies (SimCrash) or the disk is
    full (OSError ENOSPC).
    """

    def __init__(self, sim, path, mode):
        self.sim = sim
        self.path = path
        self.rel = sim.rel(path)
        self.tok = sim.token(path)
        self._mode = mode
        self._f = _REAL_OPEN(path, mode, buffering=0)
        self.pos = self._f.seek(0, 2) if 'a' in mode else 0      # byte offset in the file (append starts at its end)
        self.closed = False
        self.fault = sim.take_fault('byte', self.rel)

    def write(self, b):
        sim = self.sim
        b = bytes(b)
        n = len(b)
        ordinal = sim.next_event('write', self.tok, n)
        flt = self.fault
        if flt is not None and flt['at'] < self.pos + n:
            keep = max(0, flt['at'] - self.pos)
            if keep:
                self._f.write(b[:keep])
            self.pos += keep
            self.fault = None
            self._f.close()
            self.closed = True
            sim.fired(flt['kind'])
            sim.log(('fault', flt['kind'], self.tok, self.pos))
            if flt['kind'] == 'crash':
                raise SimCrash('crash at byte %d of %s' % (self.pos, self.rel))
            raise OSError(errno.ENOSPC, 'No space left on device (simulated)', self.path)
        self._f.write(b)
        self.pos += n
        sim.after_event('write', ordinal)
        return n

    def tell(self):
        return self.pos

    def truncate(self, size=None):
        size = self.pos if size is None else size
        self.sim.next_event('truncate', self.tok, size)
        self._f.truncate(size)
        if 'a' not in self._mode:
            self._f.seek(min(self.pos, size))
        self.pos = min(self.pos, size) if 'a' not in self._mode else size
        return size

    def seek(self, offset, whence=0):
        r = self._f.seek(offset, whence)
        self.pos = r
        return r

    def fileno(self):
        return self._f.fileno()

    def writable(self):
        return True

    def readable(self):
        return False

    def flush(self):
        pass

    def close(self):
        if not self.closed:
            self._f.close()
            self.closed = True
            self.sim.log(('close', self.tok, self.pos))

    def __enter__(self):
        return self

    def __exit__(self, *a):
        self.close()


class SimReader(object):
    """The data stream handed to fit(): only ``readline`` is offered (that is all fit() uses)."""

    def __init__(self, sim, text, label='data'):
        self.sim = sim
        self._lines = text.splitlines(True)
        self._i = 0
        self.label = label

    def readline(self):
        ordinal = self.sim.next_event('readline', self.label, self._i)
        if self._i < len(self._lines):
            line = self._lines[self._i]
            self._i += 1
        else:
            line = ''
        self.sim.after_event('readline', ordinal)
        return line

    def close(self):
        pass


class SimClock(object):
    """Replacement for the ``time`` module inside sedfitter.timer."""

    def __init__(self, sim, profile):
        self.sim = sim
        self.kind = profile.get('kind', 'steady')
        self.step = float(profile.get('step', 0.25))
        self.now = float(profile.get('start', 1.0e9))
        self.calls = 0
        self.covered = 0.0

    def time(self):
        self.calls += 1
        k = self.kind
        if k == 'steady':
            d = self.step
        elif k == 'stall':
            d = 0.0
        elif k == 'back':
            d = -self.step if self.calls % 3 == 0 else self.step
        elif k == 'leap':
            d = 1.0e7 if self.calls % 4 == 0 else self.step
        elif k == 'tiny':
            d = 1.0e-9
        else:
            raise HarnessError('clock kind %r' % k)
        self.now += d
        self.covered += abs(d)
        self.sim.next_event('time', k, self.calls)
        if k != 'steady':
            self.sim.fired('clock_' + k)
        return self.now

    def sleep(self, s):
        self.now += s

    # the seam also has to survive `from time import time`, time.monotonic(), time.perf_counter() in the code under test
    def __call__(self):
        return self.time()

    def monotonic(self):
        return self.time()

    def perf_counter(self):
        return self.time()

    def process_time(self):
        return self.time()


class SimGlob(object):
    """Replacement for the ``glob`` module: the real listing in an order the scenario picks."""

    def __init__(self, sim, perm_seed):
        self.sim = sim
        self.perm_seed = perm_seed
        self._glob = importlib.import_module('glob')
        self.calls = 0

    def glob(self, pattern, **kw):
        res = sorted(self._glob.glob(pattern, **kw))
        self.calls += 1
        if self.perm_seed is not None and len(res) > 1:
            random.Random('%s/%d' % (self.perm_seed, self.calls)).shuffle(res)
            self.sim.fired('listing_perm')
        self.sim.next_event('glob', self.sim.token(pattern), len(res))
        return res

    def __getattr__(self, name):
        return getattr(self._glob, name)


_OPEN_MODULES = ['sedfitter.fit_info', 'sedfitter.fit', 'sedfitter.write_parameters',
                 'sedfitter.write_parameter_ranges', 'sedfitter.extract_parameters',
                 'sedfitter.utils.parfile', 'sedfitter.filter.filter']
_GLOB_MODULES = ['sedfitter.convolve.convolve', 'sedfitter.convolve.monochromatic']


class Sim(object):
    """One simulated run: scratch directory, seams, event log, fault plan."""

    def __init__(self, label='run', clock=None, listing_seed=None, prompts=None):
        # one fresh directory per run: no two runs of a worker share a path, so process-level state keyed by path
        # (a cache in the code under test) cannot leak from one run into the next and break replay; same-path history
        # is put INSIDE a scenario instead (the 'prelude' epoch). Fixed width keeps pickled paths the same length.
        global _RUN_COUNTER
        _RUN_COUNTER += 1
        self.root = os.path.join(worker_root(), '%s-%07d' % (label[:3].ljust(3, '_'), _RUN_COUNTER))
        shutil.rmtree(self.root, ignore_errors=True)
        os.makedirs(self.root)
        self.events = []          # the event log (digested for the determinism test)
        self.counters = {}        # fault kinds that actually fired
        self.faults = []          # armed faults: dicts with 'on', 'target', 'at', 'kind'
        self.hooks = {}           # (kind, ordinal) -> callable (observers)
        self._ordinal = {}
        self.clock = SimClock(self, clock or {})
        self.listing_seed = listing_seed
        self.prompts = list(prompts or [])
        self.prompt_log = []
        self._installed = []
        self._tmp_n = 0
        self._in_hook = False
        self._tokens = {}

    # -- bookkeeping -------------------------------------------------------------------------
    def rel(self, path):
        p = str(path)
        return p.replace(self.root, '<root>')

    def token(self, path):
        """a stable token for a path in the event log: the code under test may choose file names that contain a pid or a
        random suffix (temporary files that are renamed into place); names are therefore logged by order of first use"""
        r = self.rel(path)
        if r not in self._tokens:
            self._tokens[r] = 'path%d' % len(self._tokens)
        return self._tokens[r]

    def path(self, *parts):
        return os.path.join(self.root, *parts)

    def log(self, item):
        self.events.append(item)

    def fired(self, kind):
        self.counters[kind] = self.counters.get(kind, 0) + 1

    def next_event(self, kind, target, info):
        n = self._ordinal.get(kind, 0)
        self._ordinal[kind] = n + 1
        self.events.append((kind, n, target if isinstance(target, (str, int)) else str(target), info))
        return n

    def after_event(self, kind, ordinal):
        hook = self.hooks.get((kind, ordinal))
        if hook is not None and not self._in_hook:
            self._in_hook = True
            try:
                self.fired('observe')
                hook()
            finally:
                self._in_hook = False

    def arm(self, on, kind, at, target=None):
        self.faults.append({'on': on, 'kind': kind, 'at': at, 'target': target})

    def take_fault(self, on, target):
        for i, f in enumerate(self.faults):
            if f['on'] == on and (f['target'] is None or f['target'] == target):
                return self.faults.pop(i)
        return None

    def reset_ordinals(self):
        self._ordinal = {}

    # -- seam implementations ----------------------------------------------------------------
    def open(self, file, mode='r', *a, **kw):
        p = str(file)
        if 'b' in mode and ('w' in mode or 'a' in mode) and p.startswith(self.root):
            self.log(('open', self.token(p), mode))
            return SimFile(self, p, mode)
        return _REAL_OPEN(file, mode, *a, **kw)

    def prompt(self, text=''):
        reply = self.prompts.pop(0) if self.prompts else 'y'
        self.prompt_log.append(reply)
        self.log(('prompt', self.rel(text), reply))
        self.fired('prompt_' + reply)
        return reply

    def mkdtemp(self, suffix=None, prefix=None, dir=None):
        self._tmp_n += 1
        d = os.path.join(self.root, '_tmp', 't%04d' % self._tmp_n)
        os.makedirs(d)
        return d

    # -- installation ------------------------------------------------------------------------
    def __enter__(self):
        for name in _OPEN_MODULES:
            mod = importlib.import_module(name)
            self._set(mod, 'open', self.open)
        for name in _GLOB_MODULES:
            mod = importlib.import_module(name)
            self._set(mod, 'glob', SimGlob(self, self.listing_seed))
        self._set(importlib.import_module('sedfitter.timer'), 'time', self.clock)
        self._set(importlib.import_module('sedfitter.utils.io'), 'input', self.prompt)
        self._set(tempfile, 'mkdtemp', self.mkdtemp)
        # the current directory is the run's scratch directory: a relative path used by the code under test stays inside it
        self._cwd = os.getcwd()
        os.chdir(self.root)
        self._stdout, self._stderr = sys.stdout, sys.stderr
        if not os.environ.get('PIPESIM_SHOW_OUTPUT'):
            sys.stdout = _Null()
            sys.stderr = _Null()
        return self

    def _set(self, mod, attr, value):
        missing = object()
        old = mod.__dict__.get(attr, missing)
        self._installed.append((mod, attr, old, missing))
        setattr(mod, attr, value)

    def __exit__(self, *exc):
        sys.stdout, sys.stderr = self._stdout, self._stderr
        try:
            os.chdir(self._cwd)
        except OSError:
            os.chdir('/')
        for mod, attr, old, missing in reversed(self._installed):
            if old is missing:
                try:
                    delattr(mod, attr)
                except AttributeError:
                    pass
            else:
                setattr(mod, attr, old)
        self._installed = []
        return False

    def cleanup(self):
        shutil.rmtree(self.root, ignore_errors=True)


def real_open(*a, **kw):
    return _REAL_OPEN(*a, **kw)
