"""Reference model: written without importing any of sedfitter's numerics."""
import numpy as np

C_UM_HZ = 299792458.0e6      # micron * Hz
KPC_CM = 3.0856775814913674e21


def nu_of(wav_um):
    return C_UM_HZ / np.asarray(wav_um, float)


def ref_rebin(fnu, fr, snu):
    """Exact integral of the piecewise-linear response (fnu, fr) over the bins of the SED
    frequency grid ``snu`` (bins bounded by midpoints, clipped to the filter range).
    Either array may be stored in either order; the result is in the order of ``snu``."""
    fnu = np.asarray(fnu, float)
    fr = np.asarray(fr, float)
    snu = np.asarray(snu, float)
    if fnu[0] > fnu[-1]:
        fnu, fr = fnu[::-1], fr[::-1]
    rev = snu[0] > snu[-1]
    s = snu[::-1] if rev else snu
    seg = 0.5 * (fnu[1:] - fnu[:-1]) * (fr[1:] + fr[:-1])
    cum = np.concatenate([[0.], np.cumsum(seg)])

    def F(x):
        x = min(max(x, fnu[0]), fnu[-1])
        i = min(max(int(np.searchsorted(fnu, x, side='right')) - 1, 0), len(fnu) - 2)
        t = x - fnu[i]
        sl = (fr[i + 1] - fr[i]) / (fnu[i + 1] - fnu[i])
        return cum[i] + fr[i] * t + 0.5 * sl * t * t

    n = len(s)
    out = np.zeros(n)
    for i in range(n):
        lo = s[0] if i == 0 else 0.5 * (s[i - 1] + s[i])
        hi = s[-1] if i == n - 1 else 0.5 * (s[i] + s[i + 1])
        out[i] = F(hi) - F(lo)
    return out[::-1] if rev else out


def ref_norm(fnu, fr):
    fnu = np.asarray(fnu, float)
    fr = np.asarray(fr, float)
    return fr / abs(np.sum(0.5 * (fnu[1:] - fnu[:-1]) * (fr[1:] + fr[:-1])))


def ref_convolve(wav, flux, fnu, fr):
    """flux (n_ap, n_wav) in storage order -> (n_ap,)"""
    R = ref_rebin(fnu, fr, nu_of(wav))
    return np.sum(np.asarray(flux, float) * R[None, :], axis=1)


def ref_convolve_err(wav, err, fnu, fr):
    R = ref_rebin(fnu, fr, nu_of(wav))
    return np.sqrt(np.sum((np.asarray(err, float) * R[None, :]) ** 2, axis=1))


def ref_interp_ap(aps, f_ap, a):
    """linear between tabulated radii, clamp above, refuse below"""
    if aps is None or len(aps) == 1:
        return float(f_ap[0])
    a = min(a, aps[-1])
    if a < aps[0]:
        raise ValueError('aperture too small')
    return float(np.interp(a, aps, f_ap))


def ref_k(ext_wav, ext_chi, lam):
    lam = np.atleast_1d(np.asarray(lam, float))
    v = np.interp(lam, ext_wav, ext_chi, left=0., right=0.)
    return -0.4 * v / np.interp(0.55, ext_wav, ext_chi)


def ref_distance_grid(dmin, dmax, logd_step):
    if dmin == dmax:
        return np.array([dmin])
    n = int(np.ceil(1 + (np.log10(dmax) - np.log10(dmin)) / logd_step))
    return np.logspace(np.log10(dmin), np.log10(dmax), n)


def n_data_of(valid):
    v = np.asarray(valid)
    return int(np.sum((v == 1) | (v == 4)))


def ref_select(chi, sel, n_data):
    """Number of fits the documented selection rule keeps from a ranked chi^2 vector.

    Returns an int, or 'equal' when a tested quantity equals the threshold (the property is
    silent there), or 'ambiguous' when the satisfying set is not a prefix (NaN in the middle).
    """
    form, v = sel
    chi = np.asarray(chi, float)
    n = len(chi)
    if n == 0:
        return 0
    if form == 'A':
        return n
    if form == 'N':
        return max(0, min(int(v), n))
    with np.errstate(all='ignore'):
        if form == 'C':
            q = chi
        elif form == 'D':
            q = chi - chi[0]
        elif form == 'E':
            q = chi / n_data
        elif form == 'F':
            q = (chi - chi[0]) / n_data
        else:
            raise ValueError(form)
        if np.any(q == v):
            return 'equal'
        # values within a few ulp of the threshold are also left alone
        fin = np.isfinite(q) & np.isfinite(v)
        if np.any(fin & (np.abs(q - v) <= 1e-12 * np.maximum(np.abs(q), abs(v) if np.isfinite(v) else 0.))):
            return 'equal'
        m = q < v
    k = int(m.sum())
    if not m[:k].all():
        return 'ambiguous'
    return k


def lsq_two(kj, w, r, av_lo, av_hi):
    """Reference constrained 2-parameter fit r ~ av*kj - 2*sc. Returns (chi2, av, sc)."""
    kj = np.asarray(kj, float)
    A = np.stack([kj, -2 * np.ones(len(kj))], 1) * np.sqrt(w)[:, None]
    sol = np.linalg.lstsq(A, r * np.sqrt(w), rcond=None)[0]
    a = min(max(sol[0], av_lo), av_hi)
    rr = r - a * kj
    s = np.sum(rr * -2 * w) / np.sum(4 * w)
    return float(np.sum(w * (rr + 2 * s) ** 2)), float(a), float(s)


def lsq_one(kj, w, r, av_lo, av_hi):
    den = np.sum(kj * kj * w)
    a = np.sum(r * kj * w) / den if den > 0 else 0.0
    a = min(max(a, av_lo), av_hi)
    return float(np.sum(w * (r - a * kj) ** 2)), float(a)
