#!/usr/bin/env python3
"""Bookkeeping for seeded changes written by independent sub-agents (see DESIGN.md section 12).

  tools_seeded.py ingest <name> <agent-worktree> <property>   copy patch.diff / demo.py / NOTES.md into seeded/<name>/
  tools_seeded.py verify <name>                               in a fresh scratch worktree of /repo: demo passes without the
                                                              patch, fails with it, and the repo's test suite passes with it
  tools_seeded.py detect <name> [ID ...] [--scale x]          run the quick check(s) against a scratch copy of /repo's package
                                                              with the patch applied (never touches /repo)
  tools_seeded.py detect-in-repo <name> [ID ...]              the same, the way the brief describes it: git -C /repo apply,
                                                              run, git -C /repo checkout -- .   (only when nothing else runs)
"""
import json
import os
import shutil
import subprocess
import sys
import time

HERE = os.path.dirname(os.path.abspath(__file__))
SEEDED = os.path.join(HERE, 'seeded')
PY = '/venv/bin/python'


def sh(cmd, **kw):
    return subprocess.run(cmd, shell=isinstance(cmd, str), capture_output=True, text=True, **kw)


def meta_path(name):
    return os.path.join(SEEDED, name, 'meta.json')


def load_meta(name):
    p = meta_path(name)
    return json.load(open(p)) if os.path.exists(p) else {}


def save_meta(name, m):
    with open(meta_path(name), 'w') as f:
        json.dump(m, f, indent=1, sort_keys=True)


def ingest(name, wt, prop):
    d = os.path.join(SEEDED, name)
    os.makedirs(d, exist_ok=True)
    diff = sh(['git', '-C', wt, 'diff', '--', 'sedfitter']).stdout
    if not diff.strip():
        raise SystemExit('no uncommitted change under sedfitter/ in %s' % wt)
    open(os.path.join(d, 'patch.diff'), 'w').write(diff)
    for fn in ('demo.py', 'NOTES.md'):
        src = os.path.join(wt, 'seeded_demo', fn)
        if os.path.exists(src):
            shutil.copy(src, os.path.join(d, fn))
    m = load_meta(name)
    m.update({'name': name, 'property': prop, 'author': 'independent sub-agent given only the property text and a scratch worktree',
              'base_commit': sh(['git', '-C', wt, 'rev-parse', 'HEAD']).stdout.strip(),
              'files_changed': [ln[6:] for ln in diff.splitlines() if ln.startswith('+++ b/')]})
    save_meta(name, m)
    print('ingested', name, m['files_changed'])


def verify(name):
    d = os.path.join(SEEDED, name)
    wt = '/tmp/seedverify-%s' % name
    sh(['git', '-C', '/repo', 'worktree', 'remove', '--force', wt])
    r = sh(['git', '-C', '/repo', 'worktree', 'add', '--detach', wt, 'HEAD'])
    if r.returncode:
        raise SystemExit(r.stderr)
    env = dict(os.environ, PYTHONPATH=wt, PYTHONDONTWRITEBYTECODE='1', MPLBACKEND='Agg')
    res = {}
    try:
        demo = os.path.join(d, 'demo.py')
        a = sh([PY, '-W', 'ignore', demo], cwd=wt, env=env)
        res['demo_without_patch_exit'] = a.returncode
        ap = sh(['git', '-C', wt, 'apply', os.path.join(d, 'patch.diff')])
        if ap.returncode:
            raise SystemExit('patch does not apply: ' + ap.stderr)
        b = sh([PY, '-W', 'ignore', demo], cwd=wt, env=env)
        res['demo_with_patch_exit'] = b.returncode
        res['demo_with_patch_output'] = (b.stdout + b.stderr)[-600:]
        t = sh([PY, '-m', 'pytest', '-q', '-p', 'no:cacheprovider', 'sedfitter'], cwd=wt, env=env)
        tail = [ln for ln in t.stdout.splitlines() if 'passed' in ln or 'failed' in ln]
        res['test_suite_with_patch'] = tail[-1] if tail else t.stdout[-300:]
        res['test_suite_exit'] = t.returncode
    finally:
        sh(['git', '-C', '/repo', 'worktree', 'remove', '--force', wt])
        shutil.rmtree(wt, ignore_errors=True)
    res['confirmed'] = (res.get('demo_without_patch_exit') == 0 and res.get('demo_with_patch_exit') not in (0, None)
                        and res.get('test_suite_exit') == 0)
    m = load_meta(name)
    m['verification'] = res
    m['what_i_ran'] = ['fresh worktree of /repo HEAD under /tmp (removed afterwards)', 'demo.py without the patch (expect exit 0)',
                       'git apply patch.diff; demo.py (expect non-zero)', 'pytest -q sedfitter with the patch (expect all pass)']
    save_meta(name, m)
    print(name, json.dumps(res, indent=1))
    return res['confirmed']


def _run_checks(name, props, scale, repo_dir, pythonpath):
    out = {}
    scratch = '/dev/shm/pipesim-seeded-%d' % os.getpid()
    for pid in props:
        env = dict(os.environ, PIPESIM_REPO=repo_dir, PYTHONPATH=pythonpath, PIPESIM_EVIDENCE_DIR=os.path.join(scratch, 'evidence'),
                   PIPESIM_REPLAY_DIR=os.path.join(scratch, 'replays'), PIPESIM_SCALE=str(scale), PYTHONHASHSEED='0', PYTHONDONTWRITEBYTECODE='1',
                   MPLBACKEND='Agg')
        t0 = time.time()
        p = sh([PY, '-W', 'ignore', '-c', 'import sys; from pipesim.cli import main; sys.exit(main(sys.argv[1:]))', pid, 'quick'], cwd=HERE, env=env)
        viol = [ln for ln in p.stdout.splitlines() if ln.startswith('VIOLATION')]
        clause = [ln.strip() for ln in p.stdout.splitlines() if ln.strip().startswith('clause=')]
        out[pid] = {'exit': p.returncode, 'caught': p.returncode == 1 and bool(viol), 'first_clause': clause[0][:300] if clause else None,
                    'seconds': round(time.time() - t0, 1)}
        print('  %s -> exit %d %s %s' % (pid, p.returncode, 'CAUGHT' if out[pid]['caught'] else 'not caught', (clause[0][:260] if clause else '')))
        if p.returncode == 2:
            print(p.stdout[-800:], p.stderr[-800:])
    shutil.rmtree(scratch, ignore_errors=True)
    return out


def detect(name, props, scale):
    d = os.path.join(SEEDED, name)
    m = load_meta(name)
    props = props or [m['property']]
    copy = '/dev/shm/pipesim-seedcopy-%d' % os.getpid()
    shutil.rmtree(copy, ignore_errors=True)
    os.makedirs(copy)
    shutil.copytree('/repo/sedfitter', os.path.join(copy, 'sedfitter'), ignore=shutil.ignore_patterns('__pycache__', '*.pyc'))
    r = sh(['patch', '-p1', '-s', '-i', os.path.join(d, 'patch.diff')], cwd=copy)
    if r.returncode:
        raise SystemExit('patch failed: ' + r.stdout + r.stderr)
    try:
        print('%s (breaks %s):' % (name, m['property']))
        res = _run_checks(name, props, scale, copy, copy + os.pathsep + HERE)
    finally:
        shutil.rmtree(copy, ignore_errors=True)
    m.setdefault('detection', {}).update(res)
    m['detected_by'] = sorted(k for k, v in m['detection'].items() if v['caught'])
    save_meta(name, m)


def detect_in_repo(name, props):
    d = os.path.join(SEEDED, name)
    m = load_meta(name)
    props = props or [m['property']]
    if sh(['git', '-C', '/repo', 'status', '--porcelain']).stdout.strip():
        raise SystemExit('/repo is not clean')
    r = sh(['git', '-C', '/repo', 'apply', os.path.join(d, 'patch.diff')])
    if r.returncode:
        raise SystemExit(r.stderr)
    try:
        print('%s applied to /repo:' % name)
        res = _run_checks(name, props, 1.0, '/repo', HERE)
    finally:
        sh(['git', '-C', '/repo', 'checkout', '--', '.'])
    m.setdefault('detection_in_repo', {}).update(res)
    save_meta(name, m)


def benign(name, props, scale):
    """A property-preserving change written by an independent sub-agent: NO check may raise an alarm on it."""
    d = os.path.join(HERE, 'benign', name)
    m = json.load(open(os.path.join(d, 'meta.json'))) if os.path.exists(os.path.join(d, 'meta.json')) else {'name': name}
    props = props or ['C05', 'C07', 'C08', 'C09', 'C10', 'C11', 'C12', 'C16', 'C17', 'C18', 'C19']
    copy = '/dev/shm/pipesim-benigncopy-%d' % os.getpid()
    shutil.rmtree(copy, ignore_errors=True)
    os.makedirs(copy)
    shutil.copytree('/repo/sedfitter', os.path.join(copy, 'sedfitter'), ignore=shutil.ignore_patterns('__pycache__', '*.pyc'))
    r = sh(['patch', '-p1', '-s', '-i', os.path.join(d, 'patch.diff')], cwd=copy)
    if r.returncode:
        raise SystemExit('patch failed: ' + r.stdout + r.stderr)
    try:
        print('%s (benign):' % name)
        res = _run_checks(name, props, scale, copy, copy + os.pathsep + HERE)
    finally:
        shutil.rmtree(copy, ignore_errors=True)
    for k, v in res.items():
        v['quiet'] = v['exit'] == 0
    m.setdefault('checks', {}).update(res)
    m['alarms'] = sorted(k for k, v in m['checks'].items() if not v['quiet'])
    with open(os.path.join(d, 'meta.json'), 'w') as f:
        json.dump(m, f, indent=1, sort_keys=True)
    return not m['alarms']


if __name__ == '__main__':
    a = sys.argv[1:]
    if not a:
        print(__doc__)
    elif a[0] == 'ingest':
        ingest(a[1], a[2], a[3])
    elif a[0] == 'verify':
        sys.exit(0 if verify(a[1]) else 1)
    elif a[0] == 'detect':
        scale = 1.0
        if '--scale' in a:
            scale = float(a[a.index('--scale') + 1])
            a = a[:a.index('--scale')] + a[a.index('--scale') + 2:]
        detect(a[1], a[2:], scale)
    elif a[0] == 'detect-in-repo':
        detect_in_repo(a[1], a[2:])
    elif a[0] == 'benign':
        scale = 0.25
        if '--scale' in a:
            scale = float(a[a.index('--scale') + 1])
            a = a[:a.index('--scale')] + a[a.index('--scale') + 2:]
        sys.exit(0 if benign(a[1], a[2:], scale) else 1)
