import os, sys, shutil, tempfile, io, contextlib, warnings, numpy as np, time, pickle, glob
warnings.filterwarnings('ignore')
import matplotlib; matplotlib.use('Agg')
from astropy import units as u
from proto import *
import sedfitter; assert '/dev/shm/sf_fixed' in sedfitter.__file__, sedfitter.__file__
from sedfitter import Fitter, fit, plot, write_parameters, write_parameter_ranges, extract_parameters, filter_output
from sedfitter.convolve import convolve_model_dir
from sedfitter.filter import Filter
from sedfitter.extinction import Extinction
from sedfitter.source import Source
from sedfitter.fit_info import FitInfoFile
base = tempfile.mkdtemp(dir='/dev/shm'); tempfile.tempdir = base
q = io.StringIO(); S = dict(runs=0, steps=0, fail=[], zero_fit_records=0, exc_both=0)
def canon(r, with_meta=True):
    def a(x): return None if x is None else (np.asarray(x, float).shape, np.asarray(x, float).tobytes())
    s = r.source
    out = [s.name, float(s.x), float(s.y), a(s.valid), a(s.flux), a(s.error), a(r.chi2), a(r.av), a(r.sc), a(r.model_id), [str(x) for x in r.model_name], a(r.model_fluxes)]
    if with_meta:
        m = r.meta; out += [[(f.get('name'), float(f['aperture_arcsec']), float(f['wav'].to(u.micron).value)) for f in m.filters], a(m.extinction_law.wav.value), a(m.extinction_law.chi.value)]
    return pickle.dumps(out)
def read_all(p):
    if os.path.getsize(p) == 0: return []
    f = FitInfoFile(p, 'r'); r = list(f); f.close(); return r
def one(seed):
    rng = np.random.default_rng(seed)
    version = int(rng.integers(1, 3)); apdep = bool(rng.integers(0, 2)); n_models = int(rng.integers(2, 7)); n_ap = int(rng.integers(2, 5)) if apdep else 1; n_wav = 20
    wav = np.sort(10 ** rng.uniform(-1, 3, n_wav))[::-1]; aps = np.sort(10 ** rng.uniform(1.5, 5, n_ap)) if apdep else None
    val = 10 ** rng.uniform(0, 2, (n_models, 1, n_wav)) * np.cumsum(rng.uniform(0.2, 1, (n_models, n_ap, 1)), axis=1); unc = val * 0.01
    names = ['mod_%03d' % i for i in range(n_models)]; perm = rng.permutation(n_models) if version == 1 else np.arange(n_models)
    d = os.path.join(base, 'pkg'); shutil.rmtree(d, ignore_errors=True); os.makedirs(d)
    if version == 1:
        os.makedirs(d + '/seds')
        for i, nm in enumerate(names): write_sed_file(d + '/seds/%s_sed.fits' % nm, nm, wav, aps, val[i], unc[i])
    else: write_cube_file(d + '/flux.fits', names, wav, aps, val, unc)
    write_params(d + '/parameters.fits', [names[i] for i in perm], {'p1': (np.arange(n_models) * 1.7 + 0.3)[perm]}); write_conf(d, apdep, version)
    nf = 3; filts = []; centers = np.sort(10 ** rng.uniform(-0.3, 2.5, nf))
    for j in range(nf):
        c = centers[j]; w = np.sort(rng.uniform(c * 0.7, c * 1.4, 6)); fnu = nu_of(w)[::-1]; fr = ref_norm(fnu, rng.uniform(0.05, 1, 6))
        f = Filter(); f.name = 'F%d' % j; f.central_wavelength = c * u.micron; f.nu = fnu * u.Hz; f.response = fr.copy(); filts.append(f)
    with contextlib.redirect_stdout(q), contextlib.redirect_stderr(q): convolve_model_dir(d, filts)
    ext_wav = np.logspace(-2, 4, 40); e = Extinction(); e.wav = ext_wav * u.micron; e.chi = 100 * ext_wav ** -1.5 * u.cm ** 2 / u.g
    theta = rng.uniform(1, 10, nf)
    if apdep:
        need = aps[0] / (theta.min() * 1000.)
        if need > 1: theta = theta * need * 1.05
    nsrc = int(rng.integers(1, 8)); lines = []
    for i in range(nsrc):
        s = Source(); s.name = 's%d' % i; s.x = float(rng.uniform(0, 360)); s.y = float(rng.uniform(-90, 90))
        s.valid = list(rng.choice([0, 1, 1, 1, 2, 3, 4, 9], nf)); fl = 10 ** rng.uniform(0, 3, nf); er = fl * 10 ** rng.uniform(-2, -0.5, nf)
        for j in range(nf):
            if s.valid[j] in (2, 3): er[j] = rng.choice([0., 0.5, 1.])
            if s.valid[j] == 4: fl[j] = np.log10(fl[j]); er[j] = 0.05
        s.flux = list(fl); s.error = list(er); lines.append(s.to_ascii())
    ndm = int(rng.integers(0, nf + 2)); sel = [('A', 0), ('N', int(rng.integers(0, 5))), ('C', float(10 ** rng.uniform(-1, 5))), ('D', float(10 ** rng.uniform(-1, 4))), ('E', float(10 ** rng.uniform(-1, 4))), ('F', float(10 ** rng.uniform(-1, 4)))][int(rng.integers(6))]
    oc = bool(rng.integers(0, 2)); text = "\n".join(lines) + ("\n" if rng.random() < 0.7 else "") + ("\n \n" if rng.random() < 0.3 else "")
    kw = dict(extinction_law=e, av_range=[0., 20.], distance_range=[1., 2.] * u.kpc)
    out = os.path.join(base, 'out.fitinfo')
    if os.path.exists(out): os.remove(out)
    with contextlib.redirect_stdout(q):
        fit(io.StringIO(text), [f.name for f in filts], theta * u.arcsec, d, out, n_data_min=ndm, output_format=sel, output_convolved=oc, **kw)
        tw = Fitter([f.name for f in filts], theta * u.arcsec, d, **kw)
    exp = []
    for ln in lines:
        s = Source.from_ascii(ln)
        if s.n_data >= ndm:
            with np.errstate(all='ignore'): info = tw.fit(s)
            if not oc: info.model_fluxes = None
            info.keep(sel); exp.append(info)
    S['runs'] += 1
    if not exp: return
    got = read_all(out)
    if [canon(r, False) for r in got] != [canon(r, False) for r in exp]: S['fail'].append((seed, 'records differ', len(got), len(exp), sel, version, apdep)); return
    S['zero_fit_records'] += sum(1 for r in got if r.n_fits == 0)
    # consumer histories
    cons = ['wp', 'wpr', 'ep', 'fo', 'plot']
    def call(name, arg, sl, tag):
        od = os.path.join(base, 'o_' + tag); shutil.rmtree(od, ignore_errors=True); os.makedirs(od)
        try:
            with contextlib.redirect_stdout(q), contextlib.redirect_stderr(q):
                if name == 'wp': write_parameters(arg, od + '/wp.txt', select_format=sl)
                elif name == 'wpr': write_parameter_ranges(arg, od + '/wpr.txt', select_format=sl)
                elif name == 'ep': extract_parameters(arg, od + '/ep_', select_format=sl)
                elif name == 'fo': filter_output(arg, output_good=od + '/good', output_bad=od + '/bad', cpd=3.7)
                elif name == 'plot':
                    figs = plot(arg, select_format=sl)
                    return ('ok', sorted((k, [sg.tobytes() for sg in v['lines'].get_segments()] if 'lines' in v else None) for k, v in figs.items()))
        except Exception as ex: return ('exc', type(ex).__name__)
        res = {}
        for p in sorted(glob.glob(od + '/*')):
            if name == 'fo': res[os.path.basename(p)] = [canon(r) for r in read_all(p)]
            else: res[os.path.basename(p)] = open(p, 'rb').read()
        return ('ok', res)
    chan = rng.choice(['file', 'list', 'obj'] if len(got) == 1 else ['file', 'list'])
    objs = read_all(out); arg = out if chan == 'file' else (objs if chan == 'list' else objs[0])
    for stepi in range(int(rng.integers(1, 4))):
        name = cons[int(rng.integers(5))]; sl = [('A', 0), ('N', int(rng.integers(0, 4))), ('F', float(10 ** rng.uniform(-1, 3))), ('C', float(10 ** rng.uniform(0, 5)))][int(rng.integers(4))]
        before = [canon(o) for o in objs]
        ref = call(name, out, sl, 'ref'); res = call(name, arg, sl, 'chan'); S['steps'] += 1
        if ref[0] == 'exc' and res[0] == 'exc': S['exc_both'] += 1
        if ref != res: S['fail'].append((seed, 'channel differs', chan, name, sl, stepi, ref[0], res[0], ref[1] if ref[0] == 'exc' else '', res[1] if res[0] == 'exc' else ''))
        if [canon(o) for o in objs] != before: S['fail'].append((seed, 'caller objects changed', chan, name, sl))
t0 = time.time()
for seed in range(int(sys.argv[1]), int(sys.argv[2])):
    try: one(seed)
    except Exception as ex:
        import traceback; S['fail'].append((seed, 'EXC', traceback.format_exc()[-900:]))
print({k: v for k, v in S.items() if k != 'fail'}, 'nfail', len(S['fail']), '%.1fs' % (time.time() - t0))
for f in S['fail'][:8]: print(f)
shutil.rmtree(base)
