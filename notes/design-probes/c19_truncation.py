import os, shutil, tempfile, numpy as np, io, contextlib, warnings, glob, pickle, traceback, collections
warnings.filterwarnings('ignore')
np.in1d = np.isin
from astropy import units as u
from gen import *
from sedfitter import Fitter, fit
from sedfitter.convolve import convolve_model_dir
from sedfitter.fit_info import FitInfoFile, FitInfo
from sedfitter.source import Source
base = tempfile.mkdtemp(dir='/tmp/explore'); tempfile.tempdir = base
q = io.StringIO()
d = os.path.join(base,'p'); info = make_pkg(d, version=1, n_models=5, n_ap=1, n_wav=40, wav_order='desc')
f = [filt('fa', 1, 5), filt('fb', 10, 30, seed=1), filt('fc', 50, 90, seed=2)]
with contextlib.redirect_stdout(q), contextlib.redirect_stderr(q): convolve_model_dir(d, f)
rng = np.random.default_rng(1); lines=[]
for i in range(3):
    s = Source(); s.name='s%d'%i; s.x=1.; s.y=2.; s.valid=[1,1,1]; s.flux=list(rng.uniform(1,20,3)); s.error=list(rng.uniform(0.1,0.3,3)); lines.append(s.to_ascii())
out = os.path.join(base,'out.fitinfo')
with contextlib.redirect_stdout(q):
    fit(io.StringIO("\n".join(lines)+"\n"), ['fa','fb','fc'], [3,3,3]*u.arcsec, d, out, n_data_min=3, extinction_law=ext(), av_range=[0,10], distance_range=[1,2]*u.kpc, output_format=('N',3), output_convolved=True)
data = open(out,'rb').read(); print('len', len(data))
# record boundaries
bio = io.BytesIO(data); bounds=[]
try:
    while True:
        pickle.load(bio); bounds.append(bio.tell())
except EOFError: pass
print('bounds', bounds)
full = [pickle.dumps(r.__getstate__()) for r in FitInfoFile(out,'r')]
outcomes = collections.Counter()
tp = os.path.join(base,'trunc')
import time; t0=time.time()
for k in range(len(data)):
    open(tp,'wb').write(data[:k])
    try:
        got = [pickle.dumps(r.__getstate__()) for r in FitInfoFile(tp,'r')]
        ok = got == full[:len(got)]
        nrec = sum(1 for b in bounds[3:] if b <= k)
        outcomes[('yield', len(got), ok, len(got)==nrec)] += 1
    except Exception as e:
        outcomes[('err', type(e).__name__, str(e)[:40])] += 1
print(time.time()-t0)
for k,v in sorted(outcomes.items(), key=str): print(k, v)
