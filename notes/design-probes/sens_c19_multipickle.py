import os, tempfile, numpy as np, io, contextlib, warnings, pickle, collections, shutil
warnings.filterwarnings('ignore')
from astropy import units as u
from proto import *
import sedfitter; print(sedfitter.__file__)
from sedfitter import fit
from sedfitter.convolve import convolve_model_dir
from sedfitter.filter import Filter
from sedfitter.extinction import Extinction
from sedfitter.fit_info import FitInfoFile
from sedfitter.source import Source
base = tempfile.mkdtemp(dir='/dev/shm'); tempfile.tempdir = base; q = io.StringIO()
rng = np.random.default_rng(0); n_models = 4; n_wav = 20
wav = np.sort(10 ** rng.uniform(-1, 3, n_wav))[::-1]; val = 10 ** rng.uniform(0, 2, (n_models, 1, n_wav)); names = ['m%d' % i for i in range(n_models)]
d = base + '/p'; os.makedirs(d + '/seds')
for i, nm in enumerate(names): write_sed_file(d + '/seds/%s_sed.fits' % nm, nm, wav, None, val[i], val[i] * .01)
write_params(d + '/parameters.fits', names, {'p': np.arange(4.)}); write_conf(d, False, 1)
filts = []
for j, c in enumerate([1., 10., 100.]):
    w = np.linspace(c * .8, c * 1.2, 5); fnu = nu_of(w)[::-1]; f = Filter(); f.name = 'F%d' % j; f.central_wavelength = c * u.micron; f.nu = fnu * u.Hz; f.response = ref_norm(fnu, np.ones(5)); filts.append(f)
with contextlib.redirect_stdout(q), contextlib.redirect_stderr(q): convolve_model_dir(d, filts)
e = Extinction(); e.wav = np.logspace(-2, 4, 10) * u.micron; e.chi = e.wav.value ** -1.5 * u.cm ** 2 / u.g
lines = ["s%d 0 0 1 1 1 %g 0.1 %g 0.1 %g 0.1" % (i, *rng.uniform(1, 5, 3)) for i in range(3)]
out = base + '/o'
with contextlib.redirect_stdout(q): fit(io.StringIO("\n".join(lines) + "\n"), ['F0', 'F1', 'F2'], [3, 3, 3] * u.arcsec, d, out, n_data_min=1, extinction_law=e, av_range=[0, 5], distance_range=[1, 2] * u.kpc, output_format=('N', 2))
data = open(out, 'rb').read()
def canon(r): return pickle.dumps((r.source.name, np.asarray(r.chi2, float).tobytes(), [str(x) for x in r.model_name]))
full = [canon(r) for r in FitInfoFile(out, 'r')]
bad = 0; oc = collections.Counter()
for k in range(len(data)):
    open(base + '/t', 'wb').write(data[:k])
    try: got = [canon(r) for r in FitInfoFile(base + '/t', 'r')]
    except Exception as ex: oc['err'] += 1; continue
    if got != full[:len(got)]: bad += 1
    oc['yield%d' % len(got)] += 1
print('len', len(data), dict(oc), 'WRONG-RECORD offsets:', bad)
shutil.rmtree(base)
