"""Throw-away prototype: independent package author + reference maths + planting."""
import os, io, contextlib, numpy as np
from astropy.io import fits
from astropy import units as u
C_UM = 299792458.0e6  # micron * Hz

def nu_of(wav_um): return C_UM / np.asarray(wav_um, float)

def write_sed_file(path, name, wav, aps, flux, err, dtype='f8', unit='mJy', distance_cm=3.0856775814913674e21):
    h0 = fits.PrimaryHDU(); h0.header['MODEL'] = name; h0.header['DISTANCE'] = distance_cm
    h0.header['NAP'] = flux.shape[0]; h0.header['NWAV'] = len(wav)
    c1 = fits.Column(name='WAVELENGTH', format='D' if dtype == 'f8' else 'E', array=np.asarray(wav), unit='um')
    c2 = fits.Column(name='FREQUENCY', format='D' if dtype == 'f8' else 'E', array=nu_of(wav), unit='Hz')
    h1 = fits.BinTableHDU.from_columns([c1, c2]); h1.name = 'WAVELENGTHS'
    ap = np.array([1e-30]) if aps is None else np.asarray(aps, float)
    h2 = fits.BinTableHDU.from_columns([fits.Column(name='APERTURE', format='D', array=ap, unit='cm' if aps is None else 'AU')]); h2.name = 'APERTURES'
    n = len(wav); f = ('%dD' if dtype == 'f8' else '%dE') % n
    h3 = fits.BinTableHDU.from_columns([fits.Column(name='TOTAL_FLUX', format=f, array=flux, unit=unit),
                                        fits.Column(name='TOTAL_FLUX_ERR', format=f, array=err, unit=unit)]); h3.name = 'SEDS'
    fits.HDUList([h0, h1, h2, h3]).writeto(path, overwrite=True)

def write_cube_file(path, names, wav, aps, val, unc, dtype='f8', unit='mJy', distance_cm=3.0856775814913674e21):
    h0 = fits.PrimaryHDU(data=np.ones(len(names), dtype=int)); h0.header['DISTANCE'] = distance_cm; h0.header['NWAV'] = len(wav)
    if aps is not None: h0.header['NAP'] = len(aps)
    h1 = fits.BinTableHDU.from_columns([fits.Column(name='MODEL_NAME', format='30A', array=np.array(names, dtype='S30'))]); h1.name = 'MODEL_NAMES'
    h2 = fits.BinTableHDU.from_columns([fits.Column(name='WAVELENGTH', format='D', array=np.asarray(wav, float), unit='um'),
                                        fits.Column(name='FREQUENCY', format='D', array=nu_of(wav), unit='Hz')]); h2.name = 'SPECTRAL_INFO'
    hs = [h0, h1, h2]
    if aps is not None:
        h3 = fits.BinTableHDU.from_columns([fits.Column(name='APERTURE', format='D', array=np.asarray(aps, float), unit='AU')]); h3.name = 'APERTURES'; hs.append(h3)
    h4 = fits.ImageHDU(val.astype('>' + dtype)); h4.header['BUNIT'] = unit; h4.name = 'VALUES'; hs.append(h4)
    if unc is not None:
        h5 = fits.ImageHDU(unc.astype('>' + dtype)); h5.header['BUNIT'] = unit; h5.name = 'UNCERTAINTIES'; hs.append(h5)
    fits.HDUList(hs).writeto(path, overwrite=True)

def write_params(path, names, cols):
    cs = [fits.Column(name='MODEL_NAME', format='30A', array=np.array(names, dtype='S30'))]
    for k, v in cols.items(): cs.append(fits.Column(name=k, format='D', array=np.asarray(v, float)))
    h0 = fits.PrimaryHDU(); h0.header['NMODELS'] = len(names)
    fits.HDUList([h0, fits.BinTableHDU.from_columns(cs)]).writeto(path, overwrite=True)

def write_conf(d, apdep, version, logd_step=0.02):
    with open(os.path.join(d, 'models.conf'), 'w') as f:
        f.write("name = sim\nlength_subdir = 0\naperture_dependent = %s\nlogd_step = %r\n" % ('yes' if apdep else 'no', logd_step))
        if version == 2: f.write("version = 2\n")

# ---------------- reference maths ----------------
def ref_rebin(fnu, fr, snu):
    fnu = np.asarray(fnu, float); fr = np.asarray(fr, float); snu = np.asarray(snu, float)
    if fnu[0] > fnu[-1]: fnu, fr = fnu[::-1], fr[::-1]
    rev = snu[0] > snu[-1]; s = snu[::-1] if rev else snu
    seg = 0.5 * (fnu[1:] - fnu[:-1]) * (fr[1:] + fr[:-1]); cum = np.concatenate([[0.], np.cumsum(seg)])
    def F(x):
        x = min(max(x, fnu[0]), fnu[-1])
        i = min(max(int(np.searchsorted(fnu, x, side='right')) - 1, 0), len(fnu) - 2)
        t = x - fnu[i]; sl = (fr[i + 1] - fr[i]) / (fnu[i + 1] - fnu[i])
        return cum[i] + fr[i] * t + 0.5 * sl * t * t
    n = len(s); out = np.zeros(n)
    for i in range(n):
        lo = s[0] if i == 0 else 0.5 * (s[i - 1] + s[i]); hi = s[-1] if i == n - 1 else 0.5 * (s[i] + s[i + 1])
        out[i] = F(hi) - F(lo)
    return out[::-1] if rev else out

def ref_norm(fnu, fr):
    fnu = np.asarray(fnu, float); fr = np.asarray(fr, float)
    return fr / abs(np.sum(0.5 * (fnu[1:] - fnu[:-1]) * (fr[1:] + fr[:-1])))

def ref_convolve(wav, flux, fnu, fr):
    """flux (n_ap, n_wav) in storage order; returns (n_ap,)"""
    R = ref_rebin(fnu, fr, nu_of(wav)); return np.sum(flux * R[None, :], axis=1)

def ref_interp_ap(aps, f_ap, a):
    if aps is None or len(aps) == 1: return f_ap[0]
    a = min(a, aps[-1])
    if a < aps[0]: raise ValueError('too small')
    return float(np.interp(a, aps, f_ap))

def ref_k(ext_wav, ext_chi, lam):
    lam = np.atleast_1d(np.asarray(lam, float)); v = np.interp(lam, ext_wav, ext_chi, left=0., right=0.)
    return -0.4 * v / np.interp(0.55, ext_wav, ext_chi)
