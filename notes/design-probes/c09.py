import os, sys, shutil, tempfile, io, contextlib, warnings, numpy as np, time, pickle, glob
warnings.filterwarnings('ignore')
from astropy import units as u
from proto import *
import sedfitter; assert '/dev/shm/sf_fixed' in sedfitter.__file__, sedfitter.__file__
from sedfitter import fit, write_parameters, write_parameter_ranges, extract_parameters, filter_output
from sedfitter.convolve import convolve_model_dir
from sedfitter.filter import Filter
from sedfitter.extinction import Extinction
from sedfitter.source import Source
from sedfitter.fit_info import FitInfoFile
base = tempfile.mkdtemp(dir='/dev/shm'); tempfile.tempdir = base
q = io.StringIO(); S = dict(runs=0, rows=0, fail=[], splits=0)
def read_all(p):
    if os.path.getsize(p) == 0: return []
    f = FitInfoFile(p, 'r'); r = list(f); f.close(); return r
def ref_select(chi, sel, nd):
    form, v = sel; chi = np.asarray(chi, float)
    if len(chi) == 0: return 0
    if form == 'A': m = np.ones(len(chi), bool)
    elif form == 'N': return min(int(v), len(chi))
    elif form == 'C': m = chi < v
    elif form == 'D': m = chi - chi[0] < v
    elif form == 'E': m = chi / nd < v
    elif form == 'F': m = (chi - chi[0]) / nd < v
    k = int(m.sum()); assert m[:k].all(); return k
def close(p, x, fmt_e=True):
    if np.isnan(x): return np.isnan(p)
    return abs(p - x) <= (6e-4 * abs(x) + 1e-300 if fmt_e else 6e-4)
def one(seed):
    rng = np.random.default_rng(seed)
    version = int(rng.integers(1, 3)); n_models = int(rng.integers(2, 8)); n_wav = 20; apdep = False; n_ap = 1
    wav = np.sort(10 ** rng.uniform(-1, 3, n_wav))[::-1]
    val = 10 ** rng.uniform(0, 2, (n_models, 1, n_wav)); unc = val * 0.01
    names = ['mod_%03d' % i for i in range(n_models)]; perm = rng.permutation(n_models) if version == 1 else np.arange(n_models)
    d = os.path.join(base, 'pkg'); shutil.rmtree(d, ignore_errors=True); os.makedirs(d)
    if version == 1:
        os.makedirs(d + '/seds')
        for i, nm in enumerate(names): write_sed_file(d + '/seds/%s_sed.fits' % nm, nm, wav, None, val[i], unc[i])
    else: write_cube_file(d + '/flux.fits', names, wav, None, val, unc)
    npar = int(rng.integers(1, 5)); pars = {'P%d' % k: (1.013 ** np.arange(n_models)) * 10.0 ** rng.integers(-4, 5) * (k + 1) for k in range(npar)}
    write_params(d + '/parameters.fits', [names[i] for i in perm], {k: v[perm] for k, v in pars.items()}); write_conf(d, apdep, version)
    nf = 3; filts = []; centers = np.sort(10 ** rng.uniform(-0.3, 2.5, nf))
    for j in range(nf):
        c = centers[j]; w = np.sort(rng.uniform(c * 0.7, c * 1.4, 6)); fnu = nu_of(w)[::-1]; fr = ref_norm(fnu, rng.uniform(0.05, 1, 6))
        f = Filter(); f.name = 'F%d' % j; f.central_wavelength = c * u.micron; f.nu = fnu * u.Hz; f.response = fr.copy(); filts.append(f)
    with contextlib.redirect_stdout(q), contextlib.redirect_stderr(q): convolve_model_dir(d, filts)
    ext_wav = np.logspace(-2, 4, 40); e = Extinction(); e.wav = ext_wav * u.micron; e.chi = 100 * ext_wav ** -1.5 * u.cm ** 2 / u.g
    nsrc = int(rng.integers(1, 6)); lines = []
    for i in range(nsrc):
        s = Source(); s.name = 's%d' % i; s.x = 1.; s.y = 2.; s.valid = list(rng.choice([0, 1, 1, 1, 9], nf)); fl = 10 ** rng.uniform(0, 3, nf); s.flux = list(fl); s.error = list(fl * 10 ** rng.uniform(-2, -0.5, nf)); lines.append(s.to_ascii())
    out = os.path.join(base, 'out.fitinfo')
    if os.path.exists(out): os.remove(out)
    with contextlib.redirect_stdout(q):
        fit(io.StringIO("\n".join(lines) + "\n"), [f.name for f in filts], [3.] * nf * u.arcsec, d, out, n_data_min=1, output_format=('A', 0), extinction_law=e, av_range=[0., 20.], distance_range=[1., 2.] * u.kpc)
    if os.path.getsize(out) == 0: return
    recs = read_all(out); S['runs'] += 1
    # author rewrites the parameter file in another order after the fit (v1 only; v2 convolve check irrelevant afterwards)
    if rng.random() < 0.5:
        p2 = rng.permutation(n_models); write_params(d + '/parameters.fits', [names[i] for i in p2], {k: v[p2] for k, v in pars.items()})
    sel = [('A', 0), ('N', int(rng.integers(0, 5))), ('C', float(10 ** rng.uniform(-1, 5))), ('D', float(10 ** rng.uniform(-1, 4))), ('E', float(10 ** rng.uniform(-1, 4))), ('F', float(10 ** rng.uniform(-1, 4)))][int(rng.integers(6))]
    add = {'ADD': {nm: float(i) * 3.3 + 0.7 for i, nm in enumerate(names)}} if rng.random() < 0.5 else {}
    chan = rng.choice(['file', 'list']); arg = out if chan == 'file' else read_all(out)
    with contextlib.redirect_stdout(q):
        write_parameters(arg, out + '.wp', select_format=sel, additional=add); write_parameter_ranges(arg, out + '.wpr', select_format=sel, additional=add); extract_parameters(arg, out + '.ep_', select_format=sel)
    L = open(out + '.wp').read().splitlines()[3:]; R = open(out + '.wpr').read().splitlines()[3:]; pos = 0
    for ri, r in enumerate(recs):
        nd = int(np.sum((np.asarray(r.source.valid) == 1) | (np.asarray(r.source.valid) == 4))); chi = np.asarray(r.chi2, float); k = ref_select(chi, sel, nd)
        hd = L[pos].split(); pos += 1
        ok = hd[0] == r.source.name and int(hd[1]) == nd and int(hd[2]) == k
        cols = list(pars.keys()) + list(add.keys())
        for i in range(k):
            t = L[pos].split(); pos += 1; nm = str(r.model_name[i]).strip(); S['rows'] += 1
            ok = ok and int(t[0]) == i + 1 and t[1] == nm and close(float(t[2]), chi[i], False) and close(float(t[3]), float(np.asarray(r.av)[i]), False) and close(float(t[4]), float(np.asarray(r.sc)[i]), False)
            for ci, c in enumerate(cols):
                x = pars[c][names.index(nm)] if c in pars else add[c][nm]; ok = ok and close(float(t[5 + ci]), x)
        # ranges
        t = R[ri].split(); ok = ok and t[0] == r.source.name and int(t[1]) == nd and int(t[2]) == k
        if k == 0: ok = ok and all(x == '-' for x in t[3:])
        else:
            def trip(a): a = np.asarray(a, float)[:k]; return [np.nanmin(a), a[0], np.nanmax(a)]
            exp = trip(chi) + trip(np.asarray(r.av)) + trip(np.asarray(r.sc))
            for c in cols: exp += trip([pars[c][names.index(str(n).strip())] if c in pars else add[c][str(n).strip()] for n in r.model_name])
            ok = ok and len(t[3:]) == len(exp) and all(close(float(a), b) or abs(float(a) - b) < 6e-4 * max(abs(b), 1e-300) for a, b in zip(t[3:], exp))
        # extract
        E = open(out + '.ep_' + r.source.name).read().splitlines(); ok = ok and len(E) == k + 1
        for i in range(k):
            t = E[1 + i].split(); nm = str(r.model_name[i]).strip()
            ok = ok and t[3] == nm and all(close(float(t[4 + ci]), pars[c][names.index(nm)]) for ci, c in enumerate(pars))
        if not ok: S['fail'].append((seed, 'listing', ri, sel, chan, version)); break
    # C18 split
    th = float(10 ** rng.uniform(-1, 5)); crit = rng.choice(['chi', 'cpd'])
    best = [float(np.asarray(r.chi2)[0]) for r in recs]; nds = [int(np.sum((np.asarray(r.source.valid) == 1) | (np.asarray(r.source.valid) == 4))) for r in recs]
    with contextlib.redirect_stdout(q): filter_output(arg, output_good=out + '.g', output_bad=out + '.b', **{crit: th})
    g = [r.source.name for r in read_all(out + '.g')]; b = [r.source.name for r in read_all(out + '.b')]; S['splits'] += 1
    eg = [r.source.name for r, c, n in zip(recs, best, nds) if (c if crit == 'chi' else c / n) < th]; eb = [r.source.name for r in recs if r.source.name not in eg]
    if g != eg or b != eb: S['fail'].append((seed, 'split', crit, th, g, eg, b, eb))
t0 = time.time()
for seed in range(int(sys.argv[1]), int(sys.argv[2])):
    try: one(seed)
    except Exception as ex:
        import traceback; S['fail'].append((seed, 'EXC', traceback.format_exc()[-900:]))
print({k: v for k, v in S.items() if k != 'fail'}, 'nfail', len(S['fail']), '%.1fs' % (time.time() - t0))
for f in S['fail'][:8]: print(f)
shutil.rmtree(base)
