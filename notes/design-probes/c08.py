import os, sys, shutil, tempfile, io, contextlib, warnings, numpy as np, time
warnings.filterwarnings('ignore')
from astropy import units as u
from proto import *
import sedfitter; assert '/dev/shm/sf_fixed' in sedfitter.__file__, sedfitter.__file__
from sedfitter import fit, write_parameters
from sedfitter.convolve import convolve_model_dir
from sedfitter.filter import Filter
from sedfitter.extinction import Extinction
from sedfitter.fit_info import FitInfoFile
base = tempfile.mkdtemp(dir='/dev/shm'); tempfile.tempdir = base
q = io.StringIO()
stats = dict(runs=0, degenerate=0, fail=[], maxchi=0, maxdav=0, maxdsc=0, minsecond=1e99)
def one(seed):
    rng = np.random.default_rng(seed)
    version = int(rng.integers(1, 3)); apdep = bool(rng.integers(0, 2)); n_models = int(rng.integers(2, 7))
    n_ap = int(rng.integers(2, 6)) if apdep else 1; n_wav = int(rng.integers(12, 40)); dtype = rng.choice(['f8', 'f4'])
    asc = bool(rng.integers(0, 2)); memmap = bool(rng.integers(0, 2))
    wav = np.sort(10 ** rng.uniform(-1, 3, n_wav)); wav = wav if asc else wav[::-1]
    if dtype == 'f4': wav = wav.astype('f4').astype('f8')
    aps = np.sort(10 ** rng.uniform(1.5, 5, n_ap)) if apdep else None
    shape = 10 ** rng.uniform(0, 2, (n_models, 1, n_wav)) * (1 + 0.5 * np.sin(np.log(wav)[None, None, :] * rng.uniform(1, 4, (n_models, 1, 1)) + rng.uniform(0, 6, (n_models, 1, 1))))
    val = shape * (np.cumsum(rng.uniform(0.2, 1, (n_models, n_ap, 1)), axis=1))
    unc = val * rng.uniform(0.001, 0.05, val.shape)
    if dtype == 'f4': val = val.astype('f4').astype('f8'); unc = unc.astype('f4').astype('f8')
    names = ['mod_%03d' % i for i in range(n_models)]
    d = os.path.join(base, 'pkg'); shutil.rmtree(d, ignore_errors=True); os.makedirs(d)
    perm = rng.permutation(n_models) if version == 1 else np.arange(n_models)
    if version == 1:
        os.makedirs(d + '/seds')
        for i, nm in enumerate(names): write_sed_file(d + '/seds/%s_sed.fits' % nm, nm, wav, aps, val[i], unc[i], dtype=dtype)
    else:
        write_cube_file(d + '/flux.fits', names, wav, aps, val, unc, dtype=dtype)
    pars = {'par1': rng.uniform(1, 2, n_models) * 10.0 ** rng.integers(-3, 4, n_models), 'par2': np.arange(n_models) * 1.7 + 0.3}
    write_params(d + '/parameters.fits', [names[i] for i in perm], {k: v[perm] for k, v in pars.items()})
    logd_step = float(rng.choice([0.02, 0.05, 0.013])); write_conf(d, apdep, version, logd_step)
    # filters
    nf = int(rng.integers(3, 6)); filts = []; fspec = []
    centers = np.sort(10 ** rng.uniform(-0.5, 2.5, nf))
    for j in range(nf):
        c = centers[j]; w = np.sort(rng.uniform(c * 0.7, c * 1.4, int(rng.integers(3, 15)))); fnu = nu_of(w)  # decreasing nu
        fr = rng.uniform(0.05, 1, len(w))
        if rng.random() < 0.5: fnu, fr = fnu[::-1], fr[::-1]
        fr = ref_norm(fnu, fr)
        f = Filter(); f.name = 'F%d' % j; f.central_wavelength = c * u.micron; f.nu = fnu * u.Hz; f.response = fr.copy(); filts.append(f); fspec.append((fnu, fr, c))
    ext_wav = np.logspace(-2, 4, 40); ext_chi = 100 * ext_wav ** -rng.uniform(1, 2)
    e = Extinction(); e.wav = ext_wav * u.micron; e.chi = ext_chi * u.cm ** 2 / u.g
    kj = ref_k(ext_wav, ext_chi, [c for _, _, c in fspec])
    with contextlib.redirect_stdout(q), contextlib.redirect_stderr(q): convolve_model_dir(d, filts, memmap=memmap)
    # plant
    av_range = [0., float(rng.uniform(5, 30))]
    m = int(rng.integers(n_models)); av0 = float(rng.choice([av_range[0], av_range[1], rng.uniform(*av_range)]))
    theta = rng.uniform(1, 10, nf)
    conv = np.array([[ref_convolve(wav, val[i], fnu, fr) for (fnu, fr, c) in fspec] for i in range(n_models)])  # (n_models, nf, n_ap)
    if apdep:
        dmin = float(10 ** rng.uniform(-1, 0.5)); dmax = dmin * float(10 ** rng.uniform(0, 0.6))
        # ensure theta*dmin*1000 AU >= aps[0]
        need = aps[0] / (theta.min() * dmin * 1000.)
        if need > 1: theta = theta * need * 1.05
        if dmin == dmax: grid = np.array([dmin])
        else:
            n = int(np.ceil(1 + (np.log10(dmax) - np.log10(dmin)) / logd_step)); grid = np.logspace(np.log10(dmin), np.log10(dmax), n)
        gi = int(rng.choice([0, len(grid) - 1, rng.integers(len(grid))])); d0 = grid[gi]; s0 = np.log10(d0)
        def mflux(i, dist): return np.array([ref_interp_ap(aps, conv[i, j], theta[j] * dist * 1000.) for j in range(nf)]) / dist ** 2
        truth = mflux(m, d0) * 10 ** (av0 * kj)
        drange = [dmin, dmax] * u.kpc
    else:
        s0 = float(rng.uniform(-1, 1)); truth = conv[m, :, 0] * 10 ** (av0 * kj) * 10 ** (-2 * s0); drange = [1., 2.] * u.kpc
    rel = 10 ** rng.uniform(-3, np.log10(0.3), nf)
    fobs = truth * 10 ** (0.5 * rel ** 2 / np.log(10)); sig = rel * fobs
    # degeneracy check via reference LSQ
    w = (np.log(10) / rel) ** 2; y = np.log10(truth)
    def chi_other(logm):
        r = y - logm
        if apdep:
            a = np.sum(r * kj * w) / np.sum(kj * kj * w); a = min(max(a, av_range[0]), av_range[1]); return np.sum(w * (r - a * kj) ** 2)
        A = np.stack([kj, -2 * np.ones(nf)], 1) * np.sqrt(w)[:, None]; sol = np.linalg.lstsq(A, r * np.sqrt(w), rcond=None)[0]
        a = min(max(sol[0], av_range[0]), av_range[1]); rr = r - a * kj; s = np.sum(rr * -2 * w) / np.sum(4 * w); return np.sum(w * (rr + 2 * s) ** 2)
    others = []
    for i in range(n_models):
        if apdep:
            for gd in grid:
                if i == m and gd == d0: continue
                others.append(chi_other(np.log10(mflux(i, gd))))
        elif i != m: others.append(chi_other(np.log10(conv[i, :, 0])))
    stats['runs'] += 1
    if len(others) and min(others) < 1.0: stats['degenerate'] += 1; return
    line = "src 0.0 0.0 " + " ".join(['1'] * nf) + " " + " ".join("%.17e %.17e" % (a, b) for a, b in zip(fobs, sig))
    out = os.path.join(base, 'out.fitinfo')
    if os.path.exists(out): os.remove(out)
    with contextlib.redirect_stdout(q):
        fit(io.StringIO(line + "\n"), [f.name for f in filts], theta * u.arcsec, d, out, n_data_min=1, extinction_law=e, av_range=av_range, distance_range=drange, output_format=('A', 0))
    r = list(FitInfoFile(out, 'r'))[0]
    chi = np.asarray(r.chi2, float); av = np.asarray(r.av, float); sc = np.asarray(r.sc, float)
    ok = str(r.model_name[0]) == names[m] and chi[0] <= 1e-4 and abs(av[0] - av0) <= 1e-4 and abs(sc[0] - s0) <= 1e-5
    stats['maxchi'] = max(stats['maxchi'], chi[0]); stats['maxdav'] = max(stats['maxdav'], abs(av[0] - av0)); stats['maxdsc'] = max(stats['maxdsc'], abs(sc[0] - s0))
    if len(chi) > 1: stats['minsecond'] = min(stats['minsecond'], chi[1])
    with contextlib.redirect_stdout(q): write_parameters(out, out + '.txt')
    row = open(out + '.txt').read().splitlines()[4].split()
    ok2 = row[1] == names[m] and abs(float(row[5]) - pars['par1'][m]) <= 6e-4 * abs(pars['par1'][m]) and abs(float(row[6]) - pars['par2'][m]) <= 6e-4 * abs(pars['par2'][m]) + 1e-12
    if not (ok and ok2): stats['fail'].append((seed, version, apdep, dtype, memmap, asc, str(r.model_name[0]), names[m], chi[:2], av[0], av0, sc[0], s0, row))
t0 = time.time()
for seed in range(int(sys.argv[1]), int(sys.argv[2])):
    try: one(seed)
    except Exception as ex:
        import traceback; stats['fail'].append((seed, 'EXC', traceback.format_exc()[-600:]))
print({k: v for k, v in stats.items() if k != 'fail'}, 'nfail', len(stats['fail']), '%.1fs' % (time.time() - t0))
for f in stats['fail'][:6]: print(f)
shutil.rmtree(base)
