import os, sys, shutil, tempfile, io, contextlib, warnings, numpy as np, time
warnings.filterwarnings('ignore')
from astropy import units as u
from astropy.io import fits
from proto import *
import sedfitter; assert '/dev/shm/sf_fixed' in sedfitter.__file__, sedfitter.__file__
from sedfitter import Fitter
from sedfitter.convolve import convolve_model_dir
from sedfitter.filter import Filter
from sedfitter.extinction import Extinction
from sedfitter.source import Source
base = tempfile.mkdtemp(dir='/dev/shm'); tempfile.tempdir = base
q = io.StringIO()
S = dict(runs=0, fail=[], max_id=0, max_v12=0, max_fit12=0, max_ratio=0, skipped_limit=0)
def read_conv(path):
    with fits.open(path) as h:
        t = h['CONVOLVED FLUXES'].data
        aps = h['APERTURES'].data['APERTURE'] if 'APERTURES' in h else None
        fl = np.array(t['TOTAL_FLUX'], float); er = np.array(t['TOTAL_FLUX_ERR'], float)
        if fl.ndim == 1: fl = fl[:, None]; er = er[:, None]
        return [str(x).strip() for x in t['MODEL_NAME']], fl, er, aps, h[0].header['FILTWAV']
def one(seed):
    rng = np.random.default_rng(seed)
    apdep = bool(rng.integers(0, 2)); n_models = int(rng.integers(1, 9)); n_ap = int(rng.integers(2, 6)) if apdep else 1
    n_wav = int(rng.integers(6, 40)); dtype = str(rng.choice(['f8', 'f4'])); asc = bool(rng.integers(0, 2))
    wav = np.sort(10 ** rng.uniform(-1, 3, n_wav)); wav = wav if asc else wav[::-1]
    aps = np.sort(10 ** rng.uniform(1.5, 5, n_ap)) if apdep else None
    val = 10 ** rng.uniform(0, 2, (n_models, 1, n_wav)) * np.cumsum(rng.uniform(0.2, 1, (n_models, n_ap, 1)), axis=1); unc = val * rng.uniform(0.001, 0.05, val.shape)
    if dtype == 'f4': val = val.astype('f4').astype('f8'); unc = unc.astype('f4').astype('f8'); wav = wav.astype('f4').astype('f8')
    names = ['mod_%03d' % i for i in range(n_models)]; perm = rng.permutation(n_models)
    d1 = os.path.join(base, 'v1'); d2 = os.path.join(base, 'v2')
    for d in (d1, d2): shutil.rmtree(d, ignore_errors=True); os.makedirs(d)
    os.makedirs(d1 + '/seds')
    for i, nm in enumerate(names): write_sed_file(d1 + '/seds/%s_sed.fits' % nm, nm, wav, aps, val[i], unc[i], dtype=dtype)
    write_cube_file(d2 + '/flux.fits', names, wav, aps, val, unc, dtype=dtype)
    pars = {'par1': rng.uniform(1, 2, n_models)}
    write_params(d1 + '/parameters.fits', [names[i] for i in perm], {k: v[perm] for k, v in pars.items()}); write_params(d2 + '/parameters.fits', names, pars)
    write_conf(d1, apdep, 1); write_conf(d2, apdep, 2)
    nf = int(rng.integers(2, 5)); filts = []; centers = np.sort(10 ** rng.uniform(-0.3, 2.5, nf))
    for j in range(nf):
        c = centers[j]; w = np.sort(rng.uniform(c * 0.7, c * 1.4, int(rng.integers(3, 15)))); fnu = nu_of(w)[::-1]; fr = ref_norm(fnu, rng.uniform(0.05, 1, len(w)))
        f = Filter(); f.name = 'F%d' % j; f.central_wavelength = c * u.micron; f.nu = fnu * u.Hz; f.response = fr.copy(); filts.append(f)
    with contextlib.redirect_stdout(q), contextlib.redirect_stderr(q):
        convolve_model_dir(d1, filts); convolve_model_dir(d2, filts, memmap=bool(rng.integers(0, 2)))
    tol = 1e-10 if dtype == 'f8' else 2e-5
    for j, f in enumerate(filts):
        n1, f1, e1, a1, w1 = read_conv(d1 + '/convolved/%s.fits' % f.name); n2, f2, e2, a2, w2 = read_conv(d2 + '/convolved/%s.fits' % f.name)
        assert n1 == [names[i] for i in perm] and n2 == names and abs(w1 - centers[j]) < 1e-12 * centers[j] and abs(w2 - centers[j]) < 1e-12 * centers[j]
        if apdep: assert np.allclose(a1, aps, rtol=1e-12) and np.allclose(a2, aps, rtol=1e-12)
        snu = nu_of(wav); 
        if snu[0] > snu[-1]: snu_s, vs, us = snu[::-1], val[..., ::-1], unc[..., ::-1]
        else: snu_s, vs, us = snu, val, unc
        R = f.rebin(snu_s * u.Hz).response
        for i, nm in enumerate(names):
            ef = np.sum(vs[i] * R[None, :], axis=1); ee = np.sqrt(np.sum((us[i] * R[None, :]) ** 2, axis=1))
            r1 = n1.index(nm)
            S['max_id'] = max(S['max_id'], np.max(np.abs(f1[r1] / ef - 1)) / tol, np.max(np.abs(e1[r1] / ee - 1)) / tol, np.max(np.abs(f2[i] / ef - 1)) / tol, np.max(np.abs(e2[i] / ee - 1)) / tol)
            S['max_v12'] = max(S['max_v12'], np.max(np.abs(f1[r1] / f2[i] - 1)) / tol, np.max(np.abs(e1[r1] / e2[i] - 1)) / tol)
    # fits
    ext_wav = np.logspace(-2, 4, 40); ext_chi = 100 * ext_wav ** -1.5
    e = Extinction(); e.wav = ext_wav * u.micron; e.chi = ext_chi * u.cm ** 2 / u.g
    theta = rng.uniform(1, 10, nf); dmin = 1.0
    if apdep:
        need = aps[0] / (theta.min() * dmin * 1000.)
        if need > 1: theta = theta * need * 1.05
    kw = dict(extinction_law=e, av_range=[0., 20.], distance_range=[dmin, dmin * 2] * u.kpc)
    with contextlib.redirect_stdout(q):
        F1 = Fitter([f.name for f in filts], theta * u.arcsec, d1, **kw); F2 = Fitter([f.name for f in filts], theta * u.arcsec, d2, use_memmap=False, **kw); F3 = Fitter([f.name for f in filts], theta * u.arcsec, d2, use_memmap=True, **kw)
    for t in range(3):
        s = Source(); s.name = 's'; s.x = 0.; s.y = 0.
        valid = rng.choice([0, 1, 1, 1, 2, 3, 9], nf); fl = 10 ** rng.uniform(0, 3, nf); er = fl * 10 ** rng.uniform(-2.5, -0.5, nf)
        for j in range(nf):
            if valid[j] in (2, 3): er[j] = rng.choice([0., 0.5, 0.9, 1.0])
        s.valid = list(valid); s.flux = list(fl); s.error = list(er)
        if np.sum(valid == 1) < 2: continue
        r1, r2, r3 = F1.fit(s), F2.fit(s), F3.fit(s)
        wt, lf, le = s.get_log_fluxes()
        def bym(r): return {str(n): (float(c), float(a), float(sc), np.asarray(mf, float)) for n, c, a, sc, mf in zip(r.model_name, np.asarray(r.chi2), np.asarray(r.av), np.asarray(r.sc), np.asarray(r.model_fluxes))}
        m1, m2, m3 = bym(r1), bym(r2), bym(r3)
        delta_store = 2.0 ** -23 / np.log(10) * (2 if dtype == 'f4' else 1)
        d12 = (1e-12 if dtype == 'f8' else 2e-5 / np.log(10))
        for nm in names:
            c2, a2_, s2, mf2 = m2[nm]
            res = np.abs(lf - mf2); near = any(valid[j] in (2, 3) and res[j] < 1e-4 for j in range(nf))
            if near or not np.isfinite(c2) or c2 > 1e29: S['skipped_limit'] += 1; continue
            b3 = 10 * np.sum(wt * (2 * res * delta_store + delta_store ** 2)) + 1e-9
            b1 = 10 * np.sum(wt * (2 * res * d12 + d12 ** 2)) + 1e-9
            S['max_ratio'] = max(S['max_ratio'], abs(m3[nm][0] - c2) / b3); S['max_fit12'] = max(S['max_fit12'], abs(m1[nm][0] - c2) / b1)
            if abs(m3[nm][0] - c2) > b3 or abs(m1[nm][0] - c2) > b1: S['fail'].append((seed, nm, dtype, apdep, m1[nm][0], c2, m3[nm][0], b1, b3))
    S['runs'] += 1
t0 = time.time()
for seed in range(int(sys.argv[1]), int(sys.argv[2])):
    try: one(seed)
    except Exception as ex:
        import traceback; S['fail'].append((seed, 'EXC', traceback.format_exc()[-700:]))
print({k: v for k, v in S.items() if k != 'fail'}, 'nfail', len(S['fail']), '%.1fs' % (time.time() - t0))
for f in S['fail'][:6]: print(f)
shutil.rmtree(base)
