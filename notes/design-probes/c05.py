import sys, io, pickle, warnings, numpy as np, time, os, tempfile
warnings.filterwarnings('ignore')
import sedfitter
from sedfitter.fit_info import FitInfo, FitInfoFile
from sedfitter.source import Source
from sedfitter.extinction import Extinction
from astropy import units as u
ALPHA = [0., 0.5, 0.5, 2., 7.25, 1e30, np.inf, np.nan]; TH = [-1, 0.25, 1, 3, 10, 1e29, 1e31, np.inf]
S = dict(hist=0, steps=0, ambiguous=0, fail=[], nonempty=0)
base = tempfile.mkdtemp(dir='/dev/shm')
def ref_keep(rows, sel, nd):
    form, v = sel
    if len(rows) == 0: return rows
    chi = np.array([r[0] for r in rows], float)
    with np.errstate(all='ignore'):
        if form == 'A': m = np.ones(len(rows), bool)
        elif form == 'N': return rows[:min(int(v), len(rows))]
        elif form == 'C': q = chi
        elif form == 'D': q = chi - chi[0]
        elif form == 'E': q = chi / nd
        elif form == 'F': q = (chi - chi[0]) / nd
        if form != 'A':
            if np.any(q == v): return 'equal'
            m = q < v
    k = int(m.sum())
    if not m[:k].all(): return 'ambiguous'
    return rows[:k]
def one(seed):
    rng = np.random.default_rng(seed); n = int(rng.integers(0, 9))
    chi = np.sort(np.array([ALPHA[i] for i in rng.integers(0, len(ALPHA), n)], float))  # NaN sorted last
    s = Source(); s.name = 'x'; s.x = 0.; s.y = 0.; nw = int(rng.integers(1, 7)); v = rng.choice([0, 1, 2, 3, 4, 9], nw); v[0] = rng.choice([1, 4]); s.valid = list(v); s.flux = [1.] * nw; s.error = [.1] * nw
    nd = int(np.sum((v == 1) | (v == 4)))
    info = FitInfo(s); info.chi2 = chi.copy(); info.av = np.arange(n) + 0.25; info.sc = np.arange(n) - 0.5; info.model_id = np.arange(n)[::-1].copy(); info.model_name = np.array(['m%d' % i for i in range(n)]); info.model_fluxes = (np.arange(n)[:, None] + np.zeros((n, nw))) if rng.random() < 0.5 else None
    e = Extinction(); e.wav = [0.1, 1., 10.] * u.micron; e.chi = [3., 2., 1.] * u.cm ** 2 / u.g
    info.meta.model_dir = 'd'; info.meta.filters = []; info.meta.extinction_law = e
    rows = [(chi[i], i) for i in range(n)]
    S['hist'] += 1
    for step in range(int(rng.integers(1, 5))):
        op = rng.choice(['keep', 'keep', 'pickle', 'file'])
        if op == 'keep':
            sel = (str(rng.choice(['A', 'N', 'C', 'D', 'E', 'F'])), None); sel = (sel[0], int(rng.integers(0, 10)) if sel[0] == 'N' else TH[int(rng.integers(len(TH)))])
            r = ref_keep(rows, sel, nd)
            if isinstance(r, str): S['ambiguous'] += (r == 'ambiguous'); return
            with np.errstate(all='ignore'): info.keep(sel)
            rows = r
        elif op == 'pickle': m = info.meta; info = pickle.loads(pickle.dumps(info)); info.meta = m
        else:
            p = os.path.join(base, 'f'); f = FitInfoFile(p, 'w'); f.write(info); f.close(); f = FitInfoFile(p, 'r'); info = list(f)[0]; f.close()
        S['steps'] += 1; k = len(rows); idx = [r[1] for r in rows]
        ok = len(info.chi2) == k and info.n_fits == k and np.array_equal(np.asarray(info.chi2, float), chi[idx], equal_nan=True) and np.array_equal(info.av, np.array(idx) + 0.25) and np.array_equal(info.sc, np.array(idx) - 0.5) and list(info.model_name) == ['m%d' % i for i in idx] and np.array_equal(info.model_id, np.arange(n)[::-1][idx]) and (info.model_fluxes is None or (len(info.model_fluxes) == k and np.array_equal(info.model_fluxes[:, 0], np.array(idx, float))))
        if not ok: S['fail'].append((seed, step, op, chi, rows)); return
        S['nonempty'] += k > 0
t0 = time.time()
for seed in range(int(sys.argv[1]), int(sys.argv[2])):
    try: one(seed)
    except Exception as ex:
        import traceback; S['fail'].append((seed, 'EXC', traceback.format_exc()[-500:]))
print({k: v for k, v in S.items() if k != 'fail'}, 'nfail', len(S['fail']), '%.1fs' % (time.time() - t0))
for f in S['fail'][:5]: print(f)
import shutil; shutil.rmtree(base)
