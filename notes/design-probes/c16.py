import os, sys, shutil, tempfile, io, contextlib, warnings, numpy as np, time, glob, hashlib
warnings.filterwarnings('ignore')
from astropy import units as u
from astropy.io import fits
from proto import *
import sedfitter; assert '/dev/shm/sf_fixed' in sedfitter.__file__, sedfitter.__file__
from sedfitter.convolve import convolve_model_dir_monochromatic
import sedfitter.convolve.monochromatic as mono
base = tempfile.mkdtemp(dir='/dev/shm'); tempfile.tempdir = base
q = io.StringIO(); S = dict(worlds=0, runs=0, fail=[], boundary_incl=0, boundary_excl=0)
class G:
    def __init__(self, rng): import glob as g; self.g = g; self.rng = rng
    def glob(self, p):
        r = self.g.glob(p); self.rng.shuffle(r); return r
def read_conv(path):
    with fits.open(path) as h:
        t = h['CONVOLVED FLUXES'].data; fl = np.array(t['TOTAL_FLUX'], float); er = np.array(t['TOTAL_FLUX_ERR'], float)
        if fl.ndim == 1: fl = fl[:, None]; er = er[:, None]
        return [str(x).strip() for x in t['MODEL_NAME']], fl, er, h[0].header['FILTWAV']
def one(seed):
    import random
    rng = np.random.default_rng(seed); mono.glob = G(random.Random(seed))
    n_models = int(rng.integers(1, 6)); n_ap = int(rng.integers(1, 4)); n_wav = int(rng.integers(2, 10)); asc = bool(rng.integers(0, 2))
    wav = np.sort(10 ** rng.uniform(-1, 3, n_wav)); wav = wav if asc else wav[::-1]
    aps = np.sort(10 ** rng.uniform(1.5, 5, n_ap)) if n_ap > 1 else None
    val = 10 ** rng.uniform(0, 2, (n_models, n_ap, n_wav)); unc = val * rng.uniform(0.001, 0.05, val.shape)
    names = ['mod_%03d' % i for i in range(n_models)]; perm = rng.permutation(n_models)
    d = os.path.join(base, 'v1'); shutil.rmtree(d, ignore_errors=True); os.makedirs(d + '/seds')
    for i, nm in enumerate(names): write_sed_file(d + '/seds/%s_sed.fits' % nm, nm, wav, aps, val[i], unc[i])
    write_params(d + '/parameters.fits', [names[i] for i in perm], {'p': np.arange(n_models)[perm] * 1.0}); write_conf(d, n_ap > 1, 1)
    sw = np.sort(wav)
    windows = [(None, None)]
    for _ in range(3):
        ends = []
        for _e in range(2):
            if rng.random() < 0.4: ends.append(float(rng.choice(sw)))
            else: ends.append(float(10 ** rng.uniform(-1.2, 3.2)))
        lo, hi = sorted(ends)
        if lo < hi and any(w > lo and w < hi for w in sw): windows.append((lo, hi))
    # single-wavelength window
    k = int(rng.integers(n_wav)); lo = sw[k] * 0.99; hi = sw[k] * 1.01
    if (k == 0 or sw[k - 1] < lo) and (k == n_wav - 1 or sw[k + 1] > hi): windows.append((lo, hi))
    S['worlds'] += 1
    for (lo, hi) in windows:
        digests = {}
        for chunk in list(range(1, n_wav + 1)) + [None]:
            shutil.rmtree(d + '/convolved', ignore_errors=True)
            kw = {}
            if chunk is not None: kw['max_ram'] = (chunk + 0.5) * 8 * n_models * n_ap / 1024. ** 3
            if lo is not None: kw['wav_min'] = lo * u.micron; kw['wav_max'] = hi * u.micron
            try:
                with contextlib.redirect_stdout(q), contextlib.redirect_stderr(q): t = convolve_model_dir_monochromatic(d, **kw)
            except Exception as ex:
                S['fail'].append((seed, lo, hi, chunk, 'EXC ' + repr(ex)[:200])); continue
            S['runs'] += 1
            files = sorted(os.path.basename(x) for x in glob.glob(d + '/convolved/*'))
            named = [(float(w), (fn.decode() if isinstance(fn, bytes) else str(fn)).strip()) for w, fn in zip(np.asarray(t['wav'].to(u.micron).value if hasattr(t['wav'], 'to') else t['wav']), t['filter'])]
            named = [(w, fn) for w, fn in named if fn]
            ok = sorted(fn + '.fits' for _, fn in named) == files
            wl = sorted(w for w, _ in named)
            strict = [w for w in sw if (lo is None or (w > lo and w < hi))]; incl = [w for w in sw if (lo is None or (w >= lo and w <= hi))]
            ok = ok and all(any(abs(w - x) < 1e-9 * w for x in wl) for w in strict) and all(any(abs(w - x) < 1e-9 * w for x in incl) for w in wl) and len(wl) == len(set(wl))
            h = hashlib.sha256()
            for w, fn in sorted(named):
                nms, fl, er, fw = read_conv(d + '/convolved/%s.fits' % fn)
                iw = int(np.argmin(np.abs(wav - w)))
                ok = ok and abs(fw - w) < 1e-9 * w and nms == [names[i] for i in perm]
                for r, nm in enumerate(nms):
                    i = names.index(nm)
                    ok = ok and np.allclose(fl[r], val[i, :, iw], rtol=1e-12) and np.allclose(er[r], unc[i, :, iw], rtol=1e-12)
                h.update(repr((round(w, 9), fn)).encode()); h.update(fl.tobytes()); h.update(er.tobytes())
            digests[chunk] = h.hexdigest()
            if not ok: S['fail'].append((seed, lo, hi, chunk, 'oracle', files, wl, strict, incl))
            if lo is not None:
                for w in incl:
                    if w not in strict:
                        if any(abs(w - x) < 1e-9 * w for x in wl): S['boundary_incl'] += 1
                        else: S['boundary_excl'] += 1
        if len(set(digests.values())) > 1: S['fail'].append((seed, lo, hi, 'chunk-dependence', digests))
t0 = time.time()
for seed in range(int(sys.argv[1]), int(sys.argv[2])):
    try: one(seed)
    except Exception as ex:
        import traceback; S['fail'].append((seed, 'EXC', traceback.format_exc()[-700:]))
print({k: v for k, v in S.items() if k != 'fail'}, 'nfail', len(S['fail']), '%.1fs' % (time.time() - t0))
for f in S['fail'][:6]: print(f)
shutil.rmtree(base)
