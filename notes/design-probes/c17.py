import os, sys, shutil, tempfile, io, contextlib, warnings, numpy as np, time, pickle
warnings.filterwarnings('ignore')
import matplotlib; matplotlib.use('Agg')
from astropy import units as u
from proto import *
import sedfitter; assert '/dev/shm/sf_fixed' in sedfitter.__file__, sedfitter.__file__
from sedfitter import Fitter, plot
from sedfitter.extinction import Extinction
from sedfitter.source import Source
from sedfitter.fit_info import FitInfoFile
base = tempfile.mkdtemp(dir='/dev/shm'); tempfile.tempdir = base
q = io.StringIO(); S = dict(runs=0, plots=0, fail=[], maxdev=0)
def one(seed):
    rng = np.random.default_rng(seed)
    apdep = bool(rng.integers(0, 2)); n_models = int(rng.integers(1, 6)); n_ap = int(rng.integers(2, 6)) if (apdep or rng.random() < 0.3) else 1
    if not apdep and n_ap > 1: apdep = True
    n_wav = int(rng.integers(6, 30)); asc = bool(rng.integers(0, 2)); dtype = str(rng.choice(['f8', 'f4']))
    wav = np.sort(10 ** rng.uniform(-1, 3, n_wav)); wav = wav if asc else wav[::-1]
    if dtype == 'f4': wav = wav.astype('f4').astype('f8')
    aps = np.sort(10 ** rng.uniform(2, 5, n_ap)) if n_ap > 1 else None
    val = 10 ** rng.uniform(0, 2, (n_models, 1, n_wav)) * np.cumsum(rng.uniform(0.2, 1, (n_models, n_ap, 1)), axis=1); unc = val * 0.01
    names = ['mod_%03d' % i for i in range(n_models)]
    d = os.path.join(base, 'v2'); shutil.rmtree(d, ignore_errors=True); os.makedirs(d)
    write_cube_file(d + '/flux.fits', names, wav, aps, val, unc, dtype=dtype); write_params(d + '/parameters.fits', names, {'p': np.arange(n_models) * 1.0}); write_conf(d, apdep, 2)
    nf = int(rng.integers(2, min(5, n_wav) + 1)); idx = np.sort(rng.choice(n_wav, nf, replace=False)); fw = wav[idx]
    ext_wav = np.logspace(-2, 4, 40); ext_chi = 100 * ext_wav ** -1.5
    e = Extinction(); e.wav = ext_wav * u.micron; e.chi = ext_chi * u.cm ** 2 / u.g
    if apdep:
        dmin = 10 ** rng.uniform(-1, 0.3); dmax = dmin * 10 ** rng.uniform(0, 0.3)
        # theta*d*1000 within [aps0*1.01, apsmax*0.99] for all d in range
        lo_t = aps[0] * 1.02 / (dmin * 1000.); hi_t = aps[-1] * 0.98 / (dmax * 1000.)
        if lo_t >= hi_t: return
        n_distinct = int(rng.integers(1, 4)); pool = rng.uniform(lo_t, hi_t, n_distinct); theta = rng.choice(pool, nf)
    else:
        dmin, dmax = 1., 2.; theta = rng.uniform(1, 5, nf)
    mm = bool(rng.integers(0, 2))
    with contextlib.redirect_stdout(q):
        ft = Fitter([w * u.micron for w in fw], theta * u.arcsec, d, extinction_law=e, av_range=[0., 10.], distance_range=[dmin, dmax] * u.kpc, use_memmap=mm)
    s = Source(); s.name = 'src'; s.x = 0.; s.y = 0.; s.valid = [1] * nf; fl = 10 ** rng.uniform(0, 3, nf); s.flux = list(fl); s.error = list(fl * 0.1)
    r = ft.fit(s); S['runs'] += 1
    nsel = int(rng.integers(1, 6))
    for mode in ['interp', 'largest', 'largest+smallest', 'all']:
        ch = rng.choice(['obj', 'file'])
        if ch == 'file':
            p = os.path.join(base, 'o.fitinfo'); fo = FitInfoFile(p, 'w'); fo.write(r); fo.close(); arg = p
        else: arg = r
        with contextlib.redirect_stdout(q): figs = plot(arg, select_format=('N', nsel), sed_type=mode, memmap=bool(rng.integers(0, 2)))
        S['plots'] += 1
        segs = figs['src']['lines'].get_segments(); k = min(nsel, n_models)
        ua = np.unique(theta)
        shown = {'interp': [None], 'largest': [theta.max()], 'largest+smallest': [theta.min(), theta.max()], 'all': list(ua)}[mode]
        if len(segs) != k * len(shown): S['fail'].append((seed, mode, 'nseg', len(segs), k, len(shown))); continue
        nu = nu_of(fw)
        for g in range(k):   # groups drawn from worst (k-1) to best (0)
            fit_i = k - 1 - g
            pred = 10. ** np.asarray(r.model_fluxes, float)[fit_i] * 1e-26 * nu
            for a_i, a in enumerate(shown):
                sg = segs[g * len(shown) + a_i]
                for j in range(nf):
                    if a is not None and theta[j] != a: continue
                    kk = int(np.argmin(np.abs(sg[:, 0] - fw[j])))
                    if abs(sg[kk, 0] - fw[j]) > 1e-6 * fw[j]: S['fail'].append((seed, mode, 'wav not found')); continue
                    dev = abs(sg[kk, 1] / pred[j] - 1); S['maxdev'] = max(S['maxdev'], dev)
                    if dev > 1e-3: S['fail'].append((seed, mode, apdep, n_ap, fit_i, j, sg[kk, 1], pred[j], dev))
t0 = time.time()
for seed in range(int(sys.argv[1]), int(sys.argv[2])):
    try: one(seed)
    except Exception as ex:
        import traceback; S['fail'].append((seed, 'EXC', traceback.format_exc()[-900:]))
print({k: v for k, v in S.items() if k != 'fail'}, 'nfail', len(S['fail']), '%.1fs' % (time.time() - t0))
for f in S['fail'][:8]: print(f)
shutil.rmtree(base)
