import numpy as np, warnings
warnings.filterwarnings('ignore')
from astropy import units as u
from sedfitter.filter import Filter
def ref_rebin(fnu, fr, snu):
    """exact integral of piecewise-linear response over midpoint bins, either order"""
    fnu = np.asarray(fnu, float); fr = np.asarray(fr, float); snu = np.asarray(snu, float)
    if fnu[0] > fnu[-1]: fnu, fr = fnu[::-1], fr[::-1]
    rev = snu[0] > snu[-1]
    s = snu[::-1] if rev else snu
    n = len(s); out = np.zeros(n)
    def F(x):  # cumulative integral from fnu[0] to x (x clipped)
        x = min(max(x, fnu[0]), fnu[-1])
        i = np.searchsorted(fnu, x, side='right') - 1
        i = min(i, len(fnu) - 2)
        cum = np.sum(0.5 * (fnu[1:i+1] - fnu[:i]) * (fr[1:i+1] + fr[:i]))
        t = x - fnu[i]; slope = (fr[i+1] - fr[i]) / (fnu[i+1] - fnu[i])
        return cum + fr[i] * t + 0.5 * slope * t * t
    for i in range(n):
        lo = s[0] if i == 0 else 0.5 * (s[i-1] + s[i])
        hi = s[-1] if i == n-1 else 0.5 * (s[i] + s[i+1])
        out[i] = F(hi) - F(lo)
    return out[::-1] if rev else out
rng = np.random.default_rng(3)
worst = {}
for trial in range(2000):
    nf = rng.integers(2, 30); ns = rng.integers(2, 40)
    fnu = np.sort(rng.uniform(1e13, 2e13, nf)); fr = rng.uniform(0, 1, nf)
    lo, hi = sorted(rng.uniform(0.5e13, 2.5e13, 2)); snu = np.sort(rng.uniform(lo, hi, ns))
    if rng.random() < 0.3: snu[rng.integers(ns)] = fnu[rng.integers(nf)]; snu = np.sort(snu)
    if len(np.unique(snu)) < ns or len(np.unique(fnu)) < nf: continue
    for ford in ['asc', 'desc']:
        for sord in ['asc', 'desc']:
            f = Filter(); a = fnu if ford == 'asc' else fnu[::-1]; b = fr if ford == 'asc' else fr[::-1]
            f.nu = a * u.Hz; f.response = b.copy()
            sn = snu if sord == 'asc' else snu[::-1]
            try:
                got = f.rebin(sn * u.Hz).response
                exp = ref_rebin(a, b, sn)
                err = np.max(np.abs(got - exp)) / (np.max(np.abs(exp)) + 1e-300)
            except Exception as e:
                err = 'EXC ' + type(e).__name__ + str(e)[:40]
            k = (ford, sord)
            if isinstance(err, str): worst.setdefault(k, {}); worst[k][err] = worst[k].get(err, 0) + 1
            else:
                worst.setdefault(k, {}); worst[k]['max'] = max(worst[k].get('max', 0), err); 
                if err > 1e-9: worst[k]['bad'] = worst[k].get('bad', 0) + 1
for k, v in worst.items(): print(k, v)
