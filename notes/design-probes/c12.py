import os, sys, shutil, tempfile, warnings, numpy as np, time
warnings.filterwarnings('ignore')
from astropy import units as u
import sedfitter; assert '/dev/shm/sf_fixed' in sedfitter.__file__, sedfitter.__file__
from sedfitter.sed import SED, SEDCube
from sedfitter.convolved_fluxes import ConvolvedFluxes
base = tempfile.mkdtemp(dir='/dev/shm'); S = dict(ops=0, fail=[])
UN = [u.mJy, u.Jy, u.erg / u.cm ** 2 / u.s, u.erg / u.s]
def one(seed):
    rng = np.random.default_rng(seed)
    n_models = int(rng.integers(1, 7)); n_ap = int(rng.integers(1, 6)); n_wav = int(rng.integers(2, 41)); asc = bool(rng.integers(0, 2))
    wav = np.sort(10 ** rng.uniform(-1, 3, n_wav)); wav = wav if asc else wav[::-1]
    has_ap = bool(rng.integers(0, 2)) or n_ap > 1; aps = np.sort(10 ** rng.uniform(1, 5, n_ap)) if has_ap else None
    if not has_ap: n_ap = 1
    unit = UN[int(rng.integers(4))]; val = 10 ** rng.uniform(-3, 3, (n_models, n_ap, n_wav)); unc = val * rng.uniform(0.01, 0.1, val.shape)
    names = ['m%02d' % i for i in range(n_models)]; dist = float(10 ** rng.uniform(-1, 1))
    kind = rng.choice(['sed', 'cube', 'conv']); p = os.path.join(base, 'f.fits')
    if kind == 'sed':
        s = SED(); s.name = names[0]; s.distance = dist * u.kpc; s.wav = wav * u.micron; s.nu = s.wav.to(u.Hz, equivalencies=u.spectral())
        if has_ap: s.apertures = aps * u.au
        s.flux = val[0] * unit; s.error = unc[0] * unit; s.write(p, overwrite=True)
        for order in ['nu', 'wav']:
            r = SED.read(p, unit_flux=unit, order=order); S['ops'] += 1
            w = r.wav.to(u.micron).value; idx = [int(np.argmin(np.abs(wav - x))) for x in w]
            ok = np.allclose(w, wav[idx], rtol=1e-12) and np.allclose(r.flux.value, val[0][:, idx], rtol=1e-12) and np.allclose(r.error.value, unc[0][:, idx], rtol=1e-12)
            ok = ok and (np.all(np.diff(w) > 0) if order == 'wav' else np.all(np.diff(w) < 0)) and np.allclose(r.nu.to(u.Hz).value * w, 299792458e6, rtol=1e-12)
            ok = ok and r.name == names[0] and abs(r.distance.to(u.kpc).value / dist - 1) < 1e-12 and (not has_ap or np.allclose(r.apertures.to(u.au).value, aps, rtol=1e-12))
            if not ok: S['fail'].append((seed, kind, order, asc, str(unit)))
    elif kind == 'cube':
        has_unc = bool(rng.integers(0, 2))
        c = SEDCube(); c.names = np.array(names); c.distance = dist * u.kpc; c.wav = wav * u.micron
        if has_ap: c.apertures = aps * u.au
        c.val = val * unit
        if has_unc: c.unc = unc * unit
        c.write(p, overwrite=True)
        for order in ['nu', 'wav']:
            for mm in [True, False]:
                r = SEDCube.read(p, order=order, memmap=mm); S['ops'] += 1
                w = r.wav.to(u.micron).value; idx = [int(np.argmin(np.abs(wav - x))) for x in w]
                ok = np.array_equal(w, wav[idx]) and np.array_equal(r.val.value, val[:, :, idx]) and ((r.unc is None) == (not has_unc)) and (not has_unc or np.array_equal(r.unc.value, unc[:, :, idx]))
                ok = ok and (np.all(np.diff(w) > 0) if order == 'wav' else np.all(np.diff(w) < 0)) and list(r.names) == names and r.val.unit == unit
                ok = ok and ((r.apertures is None) == (not has_ap)) and (not has_ap or np.array_equal(r.apertures.to(u.au).value, aps))
                k = int(rng.integers(n_models)); sd = r.get_sed(names[k])
                ok = ok and np.array_equal(sd.flux.value, val[k][:, idx]) and ((sd.error is None) == (not has_unc))
                if not ok: S['fail'].append((seed, kind, order, mm, asc, has_unc, has_ap, str(unit)))
    else:
        cf = ConvolvedFluxes(wavelength=float(wav[0]) * u.micron, model_names=np.array(names), apertures=(aps * u.au if has_ap else None), flux=val[:, :, 0] * u.mJy, error=unc[:, :, 0] * u.mJy)
        cf.write(p, overwrite=True); r = ConvolvedFluxes.read(p); S['ops'] += 1
        ok = np.array_equal(r.flux.value, val[:, :, 0]) and np.array_equal(r.error.value, unc[:, :, 0]) and [str(x).strip() for x in r.model_names] == names and abs(r.central_wavelength.value - wav[0]) < 1e-12 * wav[0]
        ok = ok and ((r.apertures is None) == (not has_ap)) and (not has_ap or np.array_equal(r.apertures.to(u.au).value, aps))
        if not ok: S['fail'].append((seed, kind, has_ap))
t0 = time.time()
for seed in range(int(sys.argv[1]), int(sys.argv[2])):
    try: one(seed)
    except Exception as ex:
        import traceback; S['fail'].append((seed, 'EXC', traceback.format_exc()[-600:]))
print({k: v for k, v in S.items() if k != 'fail'}, 'nfail', len(S['fail']), '%.1fs' % (time.time() - t0))
for f in S['fail'][:8]: print(f)
shutil.rmtree(base)
