import os, tempfile, numpy as np, io, contextlib, warnings, pickle, shutil
warnings.filterwarnings('ignore')
from astropy import units as u
from proto import *
import sedfitter; print(sedfitter.__file__)
from sedfitter import Fitter
from sedfitter.convolve import convolve_model_dir
from sedfitter.filter import Filter
from sedfitter.extinction import Extinction
from sedfitter.source import Source
base = tempfile.mkdtemp(dir='/dev/shm'); tempfile.tempdir = base; q = io.StringIO()
rng = np.random.default_rng(0); n_models = 4; n_wav = 20
wav = np.sort(10 ** rng.uniform(-1, 3, n_wav))[::-1]; val = 10 ** rng.uniform(0, 2, (n_models, 1, n_wav)); names = ['m%d' % i for i in range(n_models)]
bad = 0; total = 0
for apdep in [False, True]:
    d = base + '/p%d' % apdep; os.makedirs(d + '/seds'); aps = np.array([10., 1e3, 1e5]) if apdep else None
    v = val * (np.array([1., 2., 3.])[None, :, None] if apdep else 1)
    for i, nm in enumerate(names): write_sed_file(d + '/seds/%s_sed.fits' % nm, nm, wav, aps, v[i], v[i] * .01)
    write_params(d + '/parameters.fits', names, {'p': np.arange(4.)}); write_conf(d, apdep, 1)
    filts = []
    for j, c in enumerate([1., 10., 100.]):
        w = np.linspace(c * .8, c * 1.2, 5); fnu = nu_of(w)[::-1]; f = Filter(); f.name = 'F%d' % j; f.central_wavelength = c * u.micron; f.nu = fnu * u.Hz; f.response = ref_norm(fnu, np.ones(5)); filts.append(f)
    with contextlib.redirect_stdout(q), contextlib.redirect_stderr(q): convolve_model_dir(d, filts)
    e = Extinction(); e.wav = np.logspace(-2, 4, 10) * u.micron; e.chi = e.wav.value ** -1.5 * u.cm ** 2 / u.g
    kw = dict(extinction_law=e, av_range=[0, 5], distance_range=[1, 2] * u.kpc)
    srcs = [Source.from_ascii("s%d 0 0 1 1 1 %g 0.1 %g 0.1 %g 0.1" % (i, *rng.uniform(1, 5, 3))) for i in range(3)]
    def canon(r): return pickle.dumps((np.asarray(r.chi2, float).tobytes(), np.asarray(r.av, float).tobytes(), np.asarray(r.sc, float).tobytes(), [str(x) for x in r.model_name], np.asarray(r.model_fluxes, float).tobytes()))
    fresh = []
    for s in srcs:
        with contextlib.redirect_stdout(q): F = Fitter(['F0', 'F1', 'F2'], [3, 3, 3] * u.arcsec, d, **kw)
        fresh.append(canon(F.fit(s)))
    with contextlib.redirect_stdout(q): F = Fitter(['F0', 'F1', 'F2'], [3, 3, 3] * u.arcsec, d, **kw)
    for t in range(6):
        i = int(rng.integers(3)); total += 1
        if canon(F.fit(srcs[i])) != fresh[i]: bad += 1
print('history mismatches', bad, 'of', total)
shutil.rmtree(base)
