import os, numpy as np
from astropy import units as u
from astropy.table import Table
from sedfitter.sed import SED, SEDCube
from sedfitter.extinction import Extinction
from sedfitter.filter import Filter

def make_pkg(d, version=1, n_models=4, n_ap=1, n_wav=30, apdep=False, seed=0, wav_order='asc', perm=None, logd_step=0.02):
    rng = np.random.default_rng(seed)
    os.makedirs(d, exist_ok=True)
    wav = np.logspace(-1, 3, n_wav)
    if wav_order == 'desc': wav = wav[::-1]
    names = ['m_%03d' % i for i in range(n_models)]
    aps = np.logspace(1, 5, n_ap) if n_ap > 1 or apdep else None
    val = rng.uniform(1, 2, (n_models, n_ap, n_wav))
    if n_ap > 1: val = np.cumsum(val, axis=1)
    unc = val * rng.uniform(0.001, 0.01, val.shape)
    if version == 1:
        os.makedirs(os.path.join(d, 'seds'), exist_ok=True)
        for i, nm in enumerate(names):
            s = SED(); s.name = nm; s.distance = 1 * u.kpc
            s.wav = wav * u.micron; s.nu = s.wav.to(u.Hz, equivalencies=u.spectral())
            s.apertures = None if aps is None else aps * u.au
            s.flux = val[i] * u.mJy; s.error = unc[i] * u.mJy
            s.write(os.path.join(d, 'seds', nm + '_sed.fits'), overwrite=True)
    else:
        c = SEDCube(); c.names = np.array(names); c.distance = 1 * u.kpc
        c.wav = wav * u.micron
        c.apertures = None if aps is None else aps * u.au
        c.val = val * u.mJy; c.unc = unc * u.mJy
        c.write(os.path.join(d, 'flux.fits'), overwrite=True)
    with open(os.path.join(d, 'models.conf'), 'w') as f:
        f.write("name = test\nlength_subdir = 0\naperture_dependent = %s\nlogd_step = %g\n" % ('yes' if apdep else 'no', logd_step))
        if version == 2: f.write("version = 2\n")
    t = Table(); t['MODEL_NAME'] = np.array(names, dtype='S30')
    t['par1'] = rng.uniform(size=n_models); t['par2'] = rng.uniform(size=n_models)
    if perm is not None and version == 1: t = t[perm]
    t.write(os.path.join(d, 'parameters.fits'), overwrite=True)
    return dict(names=names, wav=wav, aps=aps, val=val, unc=unc, par=t)

def ext():
    e = Extinction(); e.wav = np.logspace(-2, 4, 60) * u.micron
    e.chi = e.wav.value ** -1.5 * u.cm**2 / u.g
    return e

def filt(name, lo, hi, n=20, seed=0, cw=None):
    rng = np.random.default_rng(seed)
    w = np.linspace(hi, lo, n) * u.micron
    f = Filter(); f.name = name; f.central_wavelength = (cw or 0.5*(lo+hi)) * u.micron
    f.nu = w.to(u.Hz, equivalencies=u.spectral()); f.response = rng.uniform(0.1, 1, n); f.normalize()
    return f
