#!/bin/bash
# Offline setup: nothing is built or fetched. Verifies the interpreter, the dependencies and that sedfitter
# is imported from /repo's working tree.
set -e
cd "$(dirname "$0")"
export PYTHONDONTWRITEBYTECODE=1
/venv/bin/python -W ignore - <<'PY' 2> >(grep -v conda >&2)
import numpy, scipy, astropy, matplotlib, sedfitter, os
assert os.path.realpath(sedfitter.__file__).startswith('/repo/'), sedfitter.__file__
print('setup ok: numpy', numpy.__version__, 'astropy', astropy.__version__, 'sedfitter from', os.path.dirname(sedfitter.__file__))
PY
mkdir -p evidence replays
